#!/usr/bin/env python3
"""Writes /verif/MANIFEST.json from the table below (kept in one place so the entries stay consistent)."""
import json, subprocess

BUILT = ["C%02d" % i for i in range(1, 21)]

P = {
 "C01": dict(tech="property-based differential testing (proptest walks + constructed positions + exhaustively enumerated families: en-passant, castling and promotion laboratories, K+X v K tables) against an independent reference move generator",
   text="Exploration: at every position of generated walks, constructed random sane positions and (thorough) the complete K+X v K tables, the checked list must equal the reference model's legal set as a multiset and the unchecked list must be a duplicate-free superset whose extras are pseudo-legal self-check moves in the model. Millions of positions per run; differential oracle independent of the engine's generator.",
   note="Trusted base: the reference model (pinned to published perft totals by the self-test). Sane positions with at most 250 pseudo-legal moves only. Sampling, not proof.", ref="DESIGN.md §4 C01"),
 "C02": dict(tech="property-based differential testing of make-move against the reference model along generated games (state carried forward independently on both sides), plus exhaustively enumerated en-passant / castling / promotion families with all successors",
   text="Exploration: along generated games of up to 397 plies (push and push_history) the engine's FEN fields 1-4 after every move must equal the reference model's successor, including the rule that an en-passant file is recorded iff a double push lands beside an enemy pawn.",
   note="Trusted base: reference model. Sampling of histories; kind-biased picks force castling, en passant, promotions and rook-home captures.", ref="DESIGN.md §4 C02"),
 "C04": dict(tech="property-based testing against an independent Zobrist combiner reading zobrist_bytes.bin, plus transposition/route metamorphic checks and golden values",
   text="Exploration: engine hash equals the independent XOR of key-file entries for the reference model's position at every ply; equal after text re-import; equal for commuted-move transpositions and for positions revisited by another route; 16 golden (FEN, hash) pairs including D9C54592621D7040 pin stability across builds.",
   note="Trusted base: key-file byte offsets as documented in zobrist.rs (0, 1, 2+8i, 259+8k) re-implemented independently; reference model for the position.", ref="DESIGN.md §4 C04"),
 "C11": dict(tech="property-based round-trip and differential testing of the FEN writer against the reference model's rendering",
   text="Exploration: every visited position's exported text must match the six-field FEN grammar, its fields 1-4 must equal the reference model's rendering of its own state, and re-import must give equal fields, hash and legal list (also equal to the model's legal set).",
   note="Trusted base: reference model. Fields 5-6 are only checked for well-formedness (the engine documents that the halfmove clock is not tracked).", ref="DESIGN.md §4 C11"),
}

P.update({
 "C03": dict(tech="property-based testing of the inverse law push/pop = identity on a full observable snapshot, over generated nested play/take-back trees",
   text="Exploration: for generated roots (imported from text at a generated ply, rest played into the record) every move of the unchecked list is played and taken back, then a picked nested tree to depth 2-6 is walked like a search, king captures included; a snapshot of every observable the property lists (FEN, hash, score, king squares, length, side, both sorted lists, display text) must be identical afterwards, and taking the snapshot twice must change nothing.",
   note="Observables only; private fields are not read. Roots are sane positions; inner nodes follow unchecked moves as the search does.", ref="DESIGN.md §4 C03"),
 "C05": dict(tech="property-based collision search over the explored position set (in-shard and cross-shard merge) plus exhaustive single-feature (and two-square exchange) metamorphic variation per sampled position",
   text="Exploration: injectivity of hash over every distinct position visited by the generated walks and their successors (10^7 scale, merged across shards), and for sampled positions ALL single-feature variations (side, 4 rights, 8-9 en-passant values, 63x10 square contents) imported from text must hash differently from the origin and each other.",
   note="A true 64-bit collision in ~10^7 positions has probability ~3e-6 and would be reported. Variations need not be sane positions.", ref="DESIGN.md §4 C05"),
 "C06": dict(tech="stateful property-based testing: generated search histories over one shared transposition table, in-process and through the UCI binary, judged by the reference model",
   text="Exploration: histories of 1-8 searches sharing one table, the game navigating between them (extend / take back / repetition shuffle / other root / ucinewgame / forced perpetual-check cycle with a single legal reply / search of the parent of a mating or stalemating move followed by the dead position / a search stopped by the hook after N polls followed by searches of every cached child and grandchild), depth 1-5, in-process and through the binary; every announced move must be legal in the reference model's position and no move is announced iff none is legal.",
   note="Depth-limited searches only; boards with more than 6 heavy pieces are skipped (quiescence is unbounded there). Trusted base: reference model.", ref="DESIGN.md §4 C06"),
 "C07": dict(tech="exhaustive enumeration of stop instants (before the start, node-entry poll index 0..64, then geometric) per generated position via the verification hook, mini-sweeps at few-move positions of generated check-heavy walks, game records ending in a forced repetition, UCI go/stop sessions and self-play runs",
   text="Exploration / schedule enumeration: the hook flips the stop flag after exactly N node-entry polls for all N in 0..=64 and a geometric sample up to the full search; the answer must be a legal move whenever one exists, no node may be entered after the flip, and (sampled N) every cached child searched afterwards with the table the stopped search left must get a legal answer; through the binary: go infinite + immediate stop, go movetime 0..10, VERIF_STOP_AFTER_POLLS, and stop latency (answer within 10 s) on five fixed boards up to 9+9 queens.",
   note="Instants = node-entry polls (the only place the recursion reads the flag). Quiescence does not poll: wall-clock promptness is not asserted.", ref="DESIGN.md §4 C07"),
 "C08": dict(tech="stateful property-based testing of search termination: depth-limited histories with decisive 'info depth > N' symptom, unlimited runs on generated tiny positions with watchdog-as-stop, fixed deep limits",
   text="Exploration: (a) histories where the depth limit is often below a depth the same position was searched to before (same table): no info depth above the limit, no panic; (b) unlimited searches of generated tiny positions and curated cages for 0.3-1.5 s, in-process and via the binary: no panic, depth strictly increasing <= 255, obeys stop within 2 s, legal answer, no flood, exit 0; then go depth 33/34/64/128/255; bare-king positions searched to the depth ceiling and again at the end of a long game record (ceiling below the cached depth); `info depth 0` counts as a wrapped counter.",
   note="Run lengths are seconds; a watchdog without a decisive symptom is inconclusive. A search that ignores stop hangs its shard and is reported through the in-flight case.", ref="DESIGN.md §4 C08"),
 "C09": dict(tech="differential property-based testing of the optimised search (table disabled by hook) against an exhaustive negamax reference on the same generator and evaluation; metamorphic history pre-fill",
   text="Exploration: on generated positions, depth 1-4, the table-less score of get_best_move_entry equals an unpruned, unordered reference negamax with the same leaf rules (clamped +-15000), and does not change when the history table is pre-filled with generated values.",
   note="Reference uses the engine's generator and score (judged by C01/C16) but no search code. Trees above 700k reference nodes, single-reply roots and trees with a move-less quiescence node are skipped and counted.", ref="DESIGN.md §4 C09"),
 "C10": dict(tech="property-based testing with an independent mate solver as labelling oracle over generated small-material positions (and exhaustive KQK/KRK tables in thorough)",
   text="Exploration: random small-material positions, themed positions (corner cages with minor pieces, seventh-rank pawns beside the king: promotion and under-promotion mates) and walk ends, half of them at the end of a 40-380-ply game record, labelled mate-in-1 / forced mate-in-2 / no legal move by the reference solver; depth 3-5 (resp. 5-6) and unlimited searches must play a mating move (resp. keep a forced mate), unlimited searches must stop by themselves, dead roots must yield no move (bestmove none through the binary).",
   note="'Keeps the forced mate' read as stated: a longer mate is accepted and reported as observation non_shortest. Solver budget exhaustion = inconclusive.", ref="DESIGN.md §4 C10"),
 "C12": dict(tech="exhaustive enumeration of the 20 480-string move-shape space per generated position (in-process) + generated UCI sessions; libFuzzer target in thorough",
   text="Exploration with an exhaustive sub-space per case: uci_notation of every legal move equals the model's text and round-trips; for ALL strings [a-h][1-8][a-h][1-8][qrbn]? a string accepted by the membership test must be a legal text that names itself; through the binary `position … moves S` + show: legal text -> model successor, else 'Invalid move' and no third position.",
   note="Shape space complete per position; positions sampled. Upper-case promotion letters / trailing characters not asserted.", ref="DESIGN.md §4 C12"),
 "C13": dict(tech="property-based testing of the UCI clock arithmetic through the real binary with boundary-biased generators",
   text="Exploration: generated go wtime/btime/winc/binc (log-uniform + boundaries, increments also within a few hundred ms of the mover's own clock, both sides, four field orders) and go movetime: `info time N` must exist with N <= the mover's clock (resp. movetime); short budgets run to completion (bestmove within N + grace), long ones answer isready and stop.",
   note="Only the allotted figure is decided exactly; wall-clock promptness sampled with grace 2 s (2-5 s inconclusive). Failures re-checked from a fresh process.", ref="DESIGN.md §4 C13"),
 "C14": dict(tech="model-based (state-machine) generation of UCI command sequences with generated command delays and stretched schedule points (hooks), history invariants on the transcript",
   text="Exploration of schedules: 3-16 GUI intents (incl. go depth+movetime whose timer outlives the search, ucinewgame and quit while searching) interpreted by a GUI state machine, delays 0-100 ms, nine named schedule points stretched by 0/20/100 ms, isready bursts during the first millisecond of a search; invariants: one bestmove per accepted go within its deadline and not before it (no answer to go infinite without stop, none to go movetime T well before T), isready always answered on its own line, refusals while searching, position+go after bestmove honoured, no stray bestmove, no panic, exit 0.",
   note="Only interleavings reachable by command timing and the named schedule points; not all schedules. Spliced output lines are decisive; timing failures are re-checked from a fresh process.", ref="DESIGN.md §4 C14"),
 "C15": dict(tech="generated stress inputs against a CHECKED build (debug assertions on) of harness and binary: model-guided high-mobility boards, maximal-length games, self-play, promoted-piece positions",
   text="Exploration on a checked build: unsafe-precondition violations, arrayvec capacity assertions and Position assertions become panics/aborts; high-mobility boards (model-guided greedy to 200-260+ pseudo-legal moves), wild boards (anything the FEN reader accepts: pawns on rank 1/8, rights without rook or king, arbitrary en-passant file), games of 380-398 plies + searches incl. go depth 0 (399th ply must be refused), self-play from drawn endings until the process ends, promoted-piece positions.",
   note="Detects what debug assertions / unsafe precondition checks detect. A shard abort is reported through the in-flight case. Panics in search.rs/uci.rs checked indexing are left to C08/C14.", ref="DESIGN.md §4 C15"),
 "C16": dict(tech="differential property-based testing of score() against an independent piece-square sum over the reference board; colour-mirror metamorphic relation",
   text="Exploration: along generated games (import at a generated ply, push_history, search-style push/pop noise) score() of played and re-imported games must equal the independent sum with both kings by the same table; the mirrored game played alongside must score exactly the negation.",
   note="Which king table applies is not pinned (phase flag private and sticky), only that both kings use the same one. Tables read from scores.rs.", ref="DESIGN.md §4 C16"),
 "C17": dict(tech="grammar-aware mutation-based property testing of the FEN reader against a strict reference reader + canonicalisation oracle; exhaustive single-edit mutants of fixed FENs; libFuzzer target in thorough",
   text="Exploration: well-formed FENs (4-6 fields, both en-passant styles) rendered by the model, mutated by 0-3 generated edits; never panics; well-formed sane => imported exactly (fields, hash, legal list); otherwise refused or imported as its most lenient documented reading; sample through the binary (position fen / isready / show / quit).",
   note="Harmless leniency is not a violation (statement's negative half = never crash, never a different position). Trusted base: strict reader and canonicalisation in c17.rs.", ref="DESIGN.md §4 C17"),
 "C18": dict(tech="stateful property-based testing: every printed `info pv` line of generated search histories replayed through the reference model",
   text="Exploration: same histories as C06 (one shared table, in-process stdout capture and UCI sessions); every info pv line must be a sequence of moves legal one after another from the searched position.",
   note="Trusted base: reference model. Depth 1-5.", ref="DESIGN.md §4 C18"),
 "C19": dict(tech="metamorphic property-based testing: identical scripts under generated perturbations (nice, ASLR off, env padding, CPU pinning, schedule delays, load) and after history + ucinewgame; byte-identical transcripts",
   text="Exploration: scripts of 1-4 fixed-depth searches (plus four fixed deep scripts, depth 7-9) run fresh, under a generated perturbation (nice, ASLR off, environment padding, CPU pinning, schedule delays, process frozen 3.4 s mid-search), and after an unrelated history (sometimes ending with a still-pending timer) + ucinewgame; the three transcripts (all info lines and bestmove) must be byte-identical.",
   note="Perturbations are sampled, not enumerated.", ref="DESIGN.md §4 C19"),
 "C20": dict(tech="property-based differential testing of the show / Display text (hash, FEN, diagram, move-record tokens) against the reference model, in-process and through the binary",
   text="Exploration: generated games with all move kinds; Hash line = key-file combination, Fen fields 1-4 and diagram = model rendering, every move-record token parsed and compared with the model's move (piece, origin file, x iff capture, destination, promotion letter).",
   note="Record format's omission of the origin file on promotions/castling is not asserted.", ref="DESIGN.md §4 C20"),
})

def main():
    props = [json.loads(l) for l in open("/verif/properties.jsonl")]
    hook_commit = subprocess.run(["git", "-C", "/repo", "log", "--format=%H", "--grep=^verif hooks", "-n", "5"], capture_output=True, text=True).stdout.split()
    checks = []
    na = []
    for p in props:
        i = p["id"]
        if i in BUILT:
            d = P[i]
            checks.append({
                "property_id": i,
                "quick_cmd": f"./check {i} quick",
                "thorough_cmd": f"./check {i} thorough",
                "evidence_file": f"/verif/evidence/{i}.json",
                "replay_cmd_template": f"./check {i} --replay {{path}}",
                "engine": "vcheck",
                "level_claimed": {"category": "exploration", "text": d["text"], "design_ref": d["ref"]},
                "level_note": d["note"],
                "technique": d["tech"],
            })
        else:
            na.append({"property_id": i, "reason": "not claimed yet: the check for this property is still being built in this session (design in DESIGN.md §4); it is within the property-based testing / fuzzing family"})
    m = {
        "version": 1,
        "setup_cmd": "./check --setup",
        "hooks": {
            "guard": "cfg(daniel729_chess_verif)",
            "enable": "RUSTFLAGS='--cfg daniel729_chess_verif' (set by ./check for the engine binary; harness/.cargo/config.toml for the in-process harness)",
            "baseline_off_cmd": "cd /repo && cargo test --workspace --no-fail-fast --offline",
            "source_commits": hook_commit,
            "add_only": True,
        },
        "engines": [
            {"name": "vcheck", "path": "/verif/harness", "serves_properties": BUILT,
             "kind_free_text": "Rust harness: proptest 1.11 driven from a binary (16 shard processes), independent reference chess model, UCI process driver; libFuzzer targets under /verif/fuzz for the two text parsers"},
        ],
        "checks": checks,
        "not_applicable": na,
        "notes": "All checks: exit 0 = held on everything explored, exit 1 = VIOLATION line with replay file, exit 2 = build / oracle self-test / infrastructure problem (never a violation). VERIF_SEED selects the proptest seeds. Known findings: /verif/known_findings.json.",
    }
    json.dump(m, open("/verif/MANIFEST.json", "w"), indent=1)
    print("MANIFEST.json written:", len(checks), "checks,", len(na), "not claimed")

main()
