#!/usr/bin/env python3
"""Writes /verif/MANIFEST.json from the table below (kept in one place so the entries stay consistent)."""
import json, subprocess

BUILT = ["C01", "C02", "C04", "C11"]

P = {
 "C01": dict(tech="property-based differential testing (proptest walks + constructed positions + exhaustive K+X v K tables) against an independent reference move generator",
   text="Exploration: at every position of generated walks, constructed random sane positions and (thorough) the complete K+X v K tables, the checked list must equal the reference model's legal set as a multiset and the unchecked list must be a duplicate-free superset whose extras are pseudo-legal self-check moves in the model. Millions of positions per run; differential oracle independent of the engine's generator.",
   note="Trusted base: the reference model (pinned to published perft totals by the self-test). Sane positions with at most 250 pseudo-legal moves only. Sampling, not proof.", ref="DESIGN.md §4 C01"),
 "C02": dict(tech="property-based differential testing of make-move against the reference model along generated games (state carried forward independently on both sides)",
   text="Exploration: along generated games of up to 397 plies (push and push_history) the engine's FEN fields 1-4 after every move must equal the reference model's successor, including the rule that an en-passant file is recorded iff a double push lands beside an enemy pawn.",
   note="Trusted base: reference model. Sampling of histories; kind-biased picks force castling, en passant, promotions and rook-home captures.", ref="DESIGN.md §4 C02"),
 "C04": dict(tech="property-based testing against an independent Zobrist combiner reading zobrist_bytes.bin, plus transposition/route metamorphic checks and golden values",
   text="Exploration: engine hash equals the independent XOR of key-file entries for the reference model's position at every ply; equal after text re-import; equal for commuted-move transpositions and for positions revisited by another route; 16 golden (FEN, hash) pairs including D9C54592621D7040 pin stability across builds.",
   note="Trusted base: key-file byte offsets as documented in zobrist.rs (0, 1, 2+8i, 259+8k) re-implemented independently; reference model for the position.", ref="DESIGN.md §4 C04"),
 "C11": dict(tech="property-based round-trip and differential testing of the FEN writer against the reference model's rendering",
   text="Exploration: every visited position's exported text must match the six-field FEN grammar, its fields 1-4 must equal the reference model's rendering of its own state, and re-import must give equal fields, hash and legal list (also equal to the model's legal set).",
   note="Trusted base: reference model. Fields 5-6 are only checked for well-formedness (the engine documents that the halfmove clock is not tracked).", ref="DESIGN.md §4 C11"),
}

def main():
    props = [json.loads(l) for l in open("/verif/properties.jsonl")]
    hook_commit = subprocess.run(["git", "-C", "/repo", "log", "--format=%H", "--grep=^verif hooks", "-n", "5"], capture_output=True, text=True).stdout.split()
    checks = []
    na = []
    for p in props:
        i = p["id"]
        if i in BUILT:
            d = P[i]
            checks.append({
                "property_id": i,
                "quick_cmd": f"./check {i} quick",
                "thorough_cmd": f"./check {i} thorough",
                "evidence_file": f"/verif/evidence/{i}.json",
                "replay_cmd_template": f"./check {i} --replay {{path}}",
                "engine": "vcheck",
                "level_claimed": {"category": "exploration", "text": d["text"], "design_ref": d["ref"]},
                "level_note": d["note"],
                "technique": d["tech"],
            })
        else:
            na.append({"property_id": i, "reason": "not claimed yet: the check for this property is still being built in this session (design in DESIGN.md §4); it is within the property-based testing / fuzzing family"})
    m = {
        "version": 1,
        "setup_cmd": "./check --setup",
        "hooks": {
            "guard": "cfg(daniel729_chess_verif)",
            "enable": "RUSTFLAGS='--cfg daniel729_chess_verif' (set by ./check for the engine binary; harness/.cargo/config.toml for the in-process harness)",
            "baseline_off_cmd": "cd /repo && cargo test --workspace --no-fail-fast --offline",
            "source_commits": hook_commit,
            "add_only": True,
        },
        "engines": [
            {"name": "vcheck", "path": "/verif/harness", "serves_properties": BUILT,
             "kind_free_text": "Rust harness: proptest 1.11 driven from a binary (16 shard processes), independent reference chess model, UCI process driver; libFuzzer targets under /verif/fuzz for the two text parsers"},
        ],
        "checks": checks,
        "not_applicable": na,
        "notes": "All checks: exit 0 = held on everything explored, exit 1 = VIOLATION line with replay file, exit 2 = build / oracle self-test / infrastructure problem (never a violation). VERIF_SEED selects the proptest seeds. Known findings: /verif/known_findings.json.",
    }
    json.dump(m, open("/verif/MANIFEST.json", "w"), indent=1)
    print("MANIFEST.json written:", len(checks), "checks,", len(na), "not claimed")

main()
