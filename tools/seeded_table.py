#!/usr/bin/env python3
"""Prints the markdown table of seeded changes and the checks that catch them (from /verif/seeded/*/meta.json)."""
import json, glob, os
rows = []
for f in sorted(glob.glob("/verif/seeded/*/meta.json")):
    m = json.load(open(f))
    name = os.path.basename(os.path.dirname(f))
    res = m.get("checks_quick", {})
    caught = [c for c, r in res.items() if r["exit"] == 1]
    missed = [c for c, r in res.items() if r["exit"] != 1]
    classes = "; ".join(sorted({k for r in res.values() for k in r.get("failure_classes", [])}))[:160]
    rows.append((name, m["property"], ", ".join(caught) or "-", ", ".join(missed) or "-", classes))
print("| seeded change | breaks | caught by (quick tier) | ran, silent | failure classes reported |")
print("|---|---|---|---|---|")
for r in rows:
    print("| " + " | ".join(r) + " |")
