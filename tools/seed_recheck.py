#!/usr/bin/env python3
"""Re-runs the quick checks recorded in every /verif/seeded/*/meta.json against its patch (applied to /repo, undone
afterwards) and refreshes `checks_quick` / `caught_by`. The owning property's check is always included."""
import json, glob, os, re, subprocess, sys, time
def sh(cmd, cwd=None, timeout=3600):
    p = subprocess.run(cmd, shell=True, cwd=cwd, capture_output=True, text=True, timeout=timeout)
    return p.returncode, p.stdout + p.stderr
ALL = "--all" in sys.argv
only = [a for a in sys.argv[1:] if a != "--all"]
for f in sorted(glob.glob("/verif/seeded/*/meta.json")):
    d = os.path.dirname(f)
    name = os.path.basename(d)
    if only and not any(o in name for o in only):
        continue
    m = json.load(open(f))
    # the owning check, every check that has ever caught the change, and (only with --all) the ones that were silent
    prev = m.get("checks_quick", {})
    ever = set(m.get("ever_caught_by", [])) | {c for c, r in prev.items() if r.get("exit") == 1}
    # (a change its owning check has never caught gets every listed check again)
    rerun_all = ALL or m["property"] not in ever
    checks = list(dict.fromkeys([m["property"]] + [c for c in prev if c in ever or rerun_all]))
    results = {}
    for c in checks:
        assert sh("git -C /repo status --porcelain")[1].strip() == "", "repo dirty"
        rc, out = sh(f"git -C /repo apply {d}/patch.diff")
        if rc != 0:
            print(f"{name} {c}: PATCH DOES NOT APPLY: {out.strip()[:200]}", flush=True)
            results[c] = dict(prev.get(c, {}), not_rerun=True, patch_does_not_apply=True)
            continue
        try:
            t0 = time.time()
            rc, out = sh(f"./check {c} quick", cwd="/verif")
        finally:
            sh("git -C /repo checkout -- . && git -C /repo clean -fdq")
        sigs = sorted(set(re.findall(r"^  failure \[([^\]]+)\]", out, re.M)))
        first = next((l.strip()[:300] for l in out.splitlines() if l.startswith("  failure")), "")
        results[c] = {"exit": rc, "violation_lines": len(re.findall(r"^VIOLATION", out, re.M)), "failure_classes": sigs, "first_failure": first, "seconds": round(time.time() - t0)}
        print(f"{name} {c}: exit={rc} {sigs}", flush=True)
    # keep the record of checks that were not re-run this time
    for c, r in prev.items():
        if c not in results:
            r = dict(r)
            r["not_rerun"] = True
            results[c] = r
    m["ever_caught_by"] = sorted(ever | {c for c, r in results.items() if r.get("exit") == 1})
    m["checks_quick"] = results
    m["caught_by"] = [c for c, r in results.items() if r["exit"] == 1]
    m["rechecked_at_verif_commit"] = subprocess.run("git -C /verif rev-parse --short HEAD", shell=True, capture_output=True, text=True).stdout.strip()
    json.dump(m, open(f, "w"), indent=1)
sh("find /verif/replays -name '*.json' -delete")
