#!/bin/bash
# tools/mut.sh revert:<commit>|<patchfile> ID [ID...]   — apply a change to /repo, run the quick checks, undo it.
# Never commits anything in /repo; refuses to run on a dirty tree.
set -u
what="$1"; shift
if [ -n "$(git -C /repo status --porcelain)" ]; then echo "repo dirty"; exit 2; fi
case "$what" in
  revert:*) git -C /repo show "${what#revert:}" | git -C /repo apply -R || { echo "cannot revert"; exit 2; } ;;
  *) git -C /repo apply "$what" || { echo "cannot apply"; exit 2; } ;;
esac
for id in "$@"; do
  out=$(cd /verif && timeout 1800 ./check "$id" quick 2>&1); rc=$?
  nv=$(echo "$out" | grep -c '^VIOLATION')
  echo "== $id exit=$rc violations_printed=$nv"
  echo "$out" | grep -E '^  failure|HARNESS|INCONCLUSIVE' | cut -c1-260 | head -4
done
git -C /repo checkout -- .
git -C /repo clean -fdq
rm -rf /verif/replays/*
