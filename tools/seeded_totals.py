#!/usr/bin/env python3
"""Totals over /verif/seeded/*/meta.json: caught by the owning check / by a neighbouring check only / by none."""
import json, glob, os
own, nb, none = [], [], []
for f in sorted(glob.glob("/verif/seeded/*/meta.json")):
    m = json.load(open(f))
    name = os.path.basename(os.path.dirname(f))
    res = m.get("checks_quick", {})
    caught = [c for c, r in res.items() if r.get("exit") == 1]
    if m["property"] in caught:
        own.append(name)
    elif caught:
        nb.append((name, caught))
    else:
        none.append(name)
print(f"{len(own) + len(nb) + len(none)} seeded changes: {len(own)} caught by the check of the property they were written against, "
      f"{len(nb)} by a neighbouring check only, {len(none)} by none")
for n, c in nb:
    print("  neighbour only:", n, c)
for n in none:
    print("  none:", n)
