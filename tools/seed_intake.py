#!/usr/bin/env python3
"""Intake of a seeded change written by an independent sub-agent.

  tools/seed_intake.py <agent dir, e.g. /tmp/seed/C02/out/m1> <property id> <name> <check ids to run...>

Confirms, in a scratch worktree of /repo outside /repo and /verif, that the change (1) compiles and passes the
repository's own test suite (45 passed, fen_startpos failing as in the baseline), (2) makes the agent's
demonstration fail, (3) the demonstration passes without the change. Then stores patch + demonstration + meta.json
under /verif/seeded/<name>/ and runs the listed checks against the change applied to /repo (undone afterwards).
"""
import json, os, re, shutil, subprocess, sys, time

def sh(cmd, cwd=None, timeout=3600, env=None):
    e = dict(os.environ)
    e["CARGO_NET_OFFLINE"] = "true"
    if env:
        e.update(env)
    p = subprocess.run(cmd, shell=True, cwd=cwd, capture_output=True, text=True, timeout=timeout, env=e)
    return p.returncode, p.stdout + p.stderr

def main():
    src, prop, name = sys.argv[1], sys.argv[2], sys.argv[3]
    checks = sys.argv[4:]
    wt = "/tmp/seedv/wt"
    tgt = "/tmp/seedv/target"
    os.makedirs("/tmp/seedv", exist_ok=True)
    sh(f"git -C /repo worktree remove --force {wt}")
    rc, out = sh(f"git -C /repo worktree add --detach {wt} HEAD")
    assert rc == 0, out
    env = {"CARGO_TARGET_DIR": tgt}
    meta = {"property": prop, "name": name, "source": "independent sub-agent given only the property text and a scratch worktree", "ran": []}
    try:
        patch = os.path.join(src, "patch.diff")
        rc, out = sh(f"git apply --check {patch}", cwd=wt)
        assert rc == 0, "patch does not apply: " + out
        # demonstration set-up: the agent's out/ directory is expected at <worktree>/out/<mN>
        mdir = os.path.join(wt, "out", os.path.basename(src.rstrip("/")))
        shutil.copytree(src, mdir)
        demo_sh = os.path.join(mdir, "demo.sh")
        demo_py = os.path.join(mdir, "demo.py")
        if os.path.exists(demo_py) and not os.path.exists(demo_sh):
            open(demo_sh, "w").write("#!/bin/bash\n# wrapper written at intake: the agent delivered demo.py\nexec python3 \"$(dirname \"$0\")/demo.py\" \"$@\"\n# daniel729_chess_verif\n" if "daniel729_chess_verif" in open(demo_py).read() else "#!/bin/bash\nexec python3 \"$(dirname \"$0\")/demo.py\" \"$@\"\n")
        demo_test = os.path.join(mdir, "demo_test.diff")
        def run_demo():
            if os.path.exists(demo_sh):
                os.chmod(demo_sh, 0o755)
                # demos build into <worktree>/target themselves; point them at the shared target through a symlink
                if not os.path.exists(os.path.join(wt, "target")):
                    os.symlink(tgt, os.path.join(wt, "target"))
                # some demos build the engine themselves, others expect target/release/rustybait to be current
                hooks = "daniel729_chess_verif" in open(demo_sh).read()
                rcb, outb = sh("cargo build --release --offline", cwd=wt, timeout=1800, env=dict(env, **({"RUSTFLAGS": "--cfg daniel729_chess_verif"} if hooks else {})))
                if rcb != 0:
                    return 97, "build failed: " + outb[-400:]
                rc, out = sh(f"bash {demo_sh}", cwd=wt, timeout=1800, env=env)
                return rc, out
            elif os.path.exists(demo_test):
                rc, out = sh(f"git apply {demo_test}", cwd=wt)
                if rc != 0:
                    return 99, "demo_test.diff does not apply: " + out
                names = re.findall(r"^\+\s*fn\s+([a-zA-Z0-9_]+)\s*\(\)", open(demo_test).read(), re.M)
                names = [n for n in names if "demo" in n or "c0" in n or "c1" in n or "c2" in n] or names
                rc, out = sh("cargo test --release --offline -- " + " ".join(names), cwd=wt, timeout=3600, env=env)
                sh(f"git apply -R {demo_test}", cwd=wt)
                return rc, out
            return 98, "no demonstration found"
        # 1. with the change: test suite
        rc, out = sh(f"git apply {patch}", cwd=wt)
        assert rc == 0
        t0 = time.time()
        rc, out = sh("cargo test --release --offline --no-fail-fast", cwd=wt, timeout=5400, env=env)
        m = re.search(r"test result: \w+\. (\d+) passed; (\d+) failed", out)
        failed = re.findall(r"^test (\S+) \.\.\. FAILED", out, re.M)
        compiled = "error: could not compile" not in out and "error[" not in out
        meta["with_change"] = {"compiles": compiled, "passed": int(m.group(1)) if m else None, "failed": int(m.group(2)) if m else None, "failed_tests": failed, "test_seconds": round(time.time() - t0)}
        meta["ran"].append("cargo test --release --offline --no-fail-fast (scratch worktree, change applied)")
        suite_ok = compiled and m and int(m.group(1)) == 45 and failed == ["chess::tests::fen_startpos"]
        # 2. demo with the change
        rc, out = run_demo()
        meta["demo_with_change"] = {"exit": rc, "tail": out[-600:]}
        # 3. demo without the change
        sh(f"git apply -R {patch}", cwd=wt)
        rc2, out2 = run_demo()
        meta["demo_without_change"] = {"exit": rc2, "tail": out2[-300:]}
        meta["ran"].append("agent's demonstration with and without the change")
        ok = suite_ok and rc not in (0, 98, 99) and rc2 == 0
        meta["confirmed"] = bool(ok)
        print(f"{name}: suite_ok={suite_ok} ({meta['with_change']}) demo_with={rc} demo_without={rc2} -> confirmed={ok}")
    finally:
        sh(f"git -C /repo worktree remove --force {wt}")
    dst = f"/verif/seeded/{name}"
    if meta.get("confirmed"):
        os.makedirs(dst, exist_ok=True)
        for f in os.listdir(src):
            p = os.path.join(src, f)
            if os.path.isfile(p) and os.path.getsize(p) < 200_000 and f in ("patch.diff", "demo.sh", "demo.py", "demo_test.diff", "notes.md", "reference_test.diff"):
                shutil.copy(p, os.path.join(dst, f))
        notes = open(os.path.join(src, "notes.md")).read() if os.path.exists(os.path.join(src, "notes.md")) else ""
        meta["needs_to_manifest"] = notes[:1500]
        # 4. my checks against the change
        results = {}
        for c in checks:
            assert sh("git -C /repo status --porcelain")[1].strip() == "", "repo dirty"
            sh(f"git -C /repo apply {dst}/patch.diff")
            try:
                t0 = time.time()
                rc, out = sh(f"./check {c} quick", cwd="/verif", timeout=3600)
            finally:
                sh("git -C /repo checkout -- . && git -C /repo clean -fdq")
            sigs = sorted(set(re.findall(r"^  failure \[([^\]]+)\]", out, re.M)))
            first = next((l.strip()[:300] for l in out.splitlines() if l.startswith("  failure")), "")
            results[c] = {"exit": rc, "violation_lines": len(re.findall(r"^VIOLATION", out, re.M)), "failure_classes": sigs, "first_failure": first, "seconds": round(time.time() - t0)}
            print(f"   {c}: exit={rc} classes={sigs}")
        meta["checks_quick"] = results
        meta["caught_by"] = [c for c, r in results.items() if r["exit"] == 1]
        meta["ran"].append("./check <ID> quick for " + ", ".join(checks) + " with the change applied to /repo, undone afterwards")
        json.dump(meta, open(os.path.join(dst, "meta.json"), "w"), indent=1)
        sh("find /verif/replays -name '*.json' -delete")
    else:
        os.makedirs("/verif/seeded/_rejected", exist_ok=True)
        json.dump(meta, open(f"/verif/seeded/_rejected/{name}.json", "w"), indent=1)

main()
