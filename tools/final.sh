#!/bin/bash
# tools/final.sh — the closing pipeline (about 2.5 h on 16 cores). Nothing else may touch /repo or /verif/harness meanwhile.
#   1. re-run the quick checks recorded for every seeded change (tools/seed_recheck.py)
#   2. put the evidence files back and regenerate them from the UNCHANGED tree (all 20 quick checks, seed 0)
#   3. regenerate the table of DESIGN.md section 9.1, MANIFEST.json; validate
set -u
cd /verif
if [ -n "$(git -C /repo status --porcelain)" ]; then echo "repo dirty"; exit 2; fi
python3 tools/seed_recheck.py "$@" > /tmp/recheck-final.log 2>&1
git -C /repo status --porcelain | grep -q . && { echo "repo dirty after the recheck"; exit 2; }
git checkout -- evidence
find replays -name '*.json' -delete
rc=0
for c in C01 C02 C03 C04 C05 C06 C07 C08 C09 C10 C11 C12 C13 C14 C15 C16 C17 C18 C19 C20; do
    VERIF_SEED=0 ./check $c quick > /tmp/final-$c.log 2>&1 || { echo "$c exit $?"; rc=1; }
    grep -E "VIOLATION|KNOWN-FINDING" /tmp/final-$c.log && rc=1
    head -1 /tmp/final-$c.log
done
find replays -name '*.json' -delete
python3 tools/seeded_table.py > /tmp/seeded-table.md
python3 - <<'E'
import re
p = '/verif/DESIGN.md'
s = open(p).read()
t = open('/tmp/seeded-table.md').read().rstrip('\n')
a = s.index('| seeded change | breaks | caught by (quick tier)')
b = s.index('\n\n', a)
s = s[:a] + t + s[b:]
open(p, 'w').write(s)
E
python3 tools/mkmanifest.py && python3-vt tools/validate.py | grep -v '^valid'
echo "final pipeline done rc=$rc"
exit $rc
