#!/opt/veriftools/pyvenv/bin/python
"""Validate MANIFEST.json and every evidence file against the schemas."""
import json, jsonschema, glob, sys
ok = True
def v(path, schema):
    global ok
    try:
        jsonschema.validate(json.load(open(path)), json.load(open(schema)))
        print("valid  ", path)
    except Exception as e:
        ok = False
        print("INVALID", path, str(e).splitlines()[0])
v("/verif/MANIFEST.json", "/root/.vp/MANIFEST.schema.json")
for f in sorted(glob.glob("/verif/evidence/*.json")):
    v(f, "/root/.vp/EVIDENCE.schema.json")
sys.exit(0 if ok else 1)
