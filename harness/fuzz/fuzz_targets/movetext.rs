//! libFuzzer target for C12: bytes -> (curated position, a few plies, one string of move shape);
//! oracle: a string that passes the membership test `position` performs must be the text of a legal move.
#![no_main]
use libfuzzer_sys::fuzz_target;

fuzz_target!(|data: &[u8]| {
    if data.len() < 6 {
        return;
    }
    if let Err(fail) = vcheck::props::c12::fuzz_one(data) {
        panic!("C12 {} : {}", fail.signature, fail.detail);
    }
});
