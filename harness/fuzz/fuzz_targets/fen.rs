//! libFuzzer target for C17: the whole FEN oracle (strict reader + canonicalisation) on arbitrary text.
#![no_main]
use libfuzzer_sys::fuzz_target;
use std::sync::OnceLock;
use vcheck::refchess::Zob;

static ZOB: OnceLock<Zob> = OnceLock::new();

fuzz_target!(|data: &[u8]| {
    let Ok(text) = std::str::from_utf8(data) else { return };
    if text.len() > 200 {
        return;
    }
    let zob = ZOB.get_or_init(Zob::repo);
    if let Err(fail) = vcheck::props::c17::judge(text, zob) {
        panic!("C17 {} : {}", fail.signature, fail.detail);
    }
});
