//! RustyBait's sources, included straight from /repo's working tree.
//! cargo records the #[path] files in the dep-info, so editing /repo/src rebuilds this crate.
#![allow(dead_code, unused_imports, private_interfaces, clippy::all)]

#[path = "/repo/src/chess/mod.rs"]
pub mod chess;
#[path = "/repo/src/constants.rs"]
pub mod constants;
#[path = "/repo/src/search.rs"]
pub mod search;
#[cfg(daniel729_chess_verif)]
#[path = "/repo/src/verif_hooks.rs"]
pub mod verif_hooks;
