//! Property trait, shard execution (proptest driven from a binary), replay, and the parent that
//! spawns shards, merges their evidence and prints VIOLATION / KNOWN-FINDING lines.
#![allow(dead_code)]

use crate::ev::*;
use crate::gen::mix;
use proptest::strategy::BoxedStrategy;
use proptest::test_runner::{Config, RngSeed, TestCaseError, TestError, TestRunner};
use serde::de::DeserializeOwned;
use serde::Serialize;
use serde_json::{json, Value};
use std::cell::RefCell;
use std::collections::{BTreeMap, HashSet};
use std::fmt::Debug;
use std::time::{Duration, Instant};

#[derive(Clone, Debug)]
pub struct Ctx {
    pub tier: Tier,
    pub seed: u64,
    pub shard: u32,
    pub nshards: u32,
    pub outdir: String,
    pub inflight: bool,
    /// true in the `checked` build flavour (debug assertions on)
    pub checked_build: bool,
}

impl Ctx {
    pub fn shard_seed(&self, id: &str) -> u64 {
        mix(self.seed ^ mix(crate::gen::fp_bytes(id.as_bytes())) ^ mix(self.shard as u64 + 1))
    }
    /// Record the case about to be executed, so that a shard that dies or hangs leaves its reproduction
    /// behind (used by the runner for generated cases and by enumerations that run searches)
    pub fn note_inflight<C: Serialize>(&self, id: &str, case: &C) {
        let v = json!({ "property": id, "signature": "inflight", "detail": "case that was executing when the shard died or hung", "case": case });
        let _ = std::fs::write(format!("{}/inflight-{}.json", self.outdir, self.shard), serde_json::to_string(&v).unwrap());
    }

    /// Does this shard own item `i` of a deterministic enumeration
    pub fn owns(&self, i: u64) -> bool {
        i % self.nshards as u64 == self.shard as u64
    }
}

pub trait Prop {
    type Case: Clone + Debug + Serialize + DeserializeOwned + 'static;

    fn id(&self) -> &'static str;
    /// how cases are generated and what makes one non-trivial / distinct
    fn rule(&self) -> String;
    fn assumptions(&self) -> Vec<String>;
    fn nshards(&self, _tier: Tier) -> u32 {
        16
    }
    /// total number of proptest cases over all shards
    fn cases(&self, tier: Tier) -> u32;
    fn max_shrink_iters(&self) -> u32 {
        1500
    }
    /// wall-clock budget for shrinking one failure
    fn shrink_budget_s(&self) -> u64 {
        40
    }
    fn strategy(&self, ctx: &Ctx) -> BoxedStrategy<Self::Case>;
    fn check(&self, ctx: &Ctx, case: &Self::Case, ev: &mut Ev) -> Result<(), Fail>;
    /// deterministic enumerations (exhaustive sub-spaces, golden tables); shard-aware through ctx.owns
    fn enumerate(&self, _ctx: &Ctx, _ev: &mut Ev, _report: &mut dyn FnMut(Self::Case, Fail)) {}
    /// extra keys for the evidence file computed by the parent from the merged classes
    fn extra_evidence(&self, _tier: Tier, _classes: &BTreeMap<String, u64>) -> Value {
        json!({})
    }
    /// seconds after which the parent gives up on a shard
    fn shard_timeout_s(&self, tier: Tier) -> u64 {
        tier.pick(600, 3600)
    }
    /// a shard that hangs or dies on a signal is itself the violation (termination / crash properties)
    fn death_is_violation(&self) -> bool {
        true
    }
    fn hang_is_violation(&self) -> bool {
        false
    }
    /// re-run the shrunk case from a fresh process before believing it (wall-clock oracles)
    fn confirm_in_fresh_process(&self) -> bool {
        false
    }
    /// called in the parent after all shards finished (cross-shard oracles); returns extra violations
    fn post_merge(&self, _tier: Tier, _seed: u64, _outdir: &str, _nshards: u32) -> (Vec<Fail>, Value) {
        (Vec::new(), json!({}))
    }
    fn always_inflight(&self) -> bool {
        false
    }
}

pub trait DynProp {
    fn id(&self) -> &'static str;
    fn run_shard(&self, ctx: &Ctx);
    fn replay(&self, ctx: &Ctx, path: &str) -> Result<Result<(), Fail>, String>;
    fn run_parent(&self, tier: Tier, seed: u64) -> i32;
}

fn replay_dir() -> String {
    let d = "/verif/replays".to_string();
    let _ = std::fs::create_dir_all(&d);
    d
}

fn write_replay<C: Serialize>(id: &str, tag: &str, case: &C, fail: &Fail) -> String {
    let path = format!("{}/{}-{}.json", replay_dir(), id, tag);
    let case_value = fail.replay_case.clone().unwrap_or_else(|| serde_json::to_value(case).unwrap());
    let v = json!({ "property": id, "signature": fail.signature, "detail": fail.detail, "case": case_value });
    std::fs::write(&path, serde_json::to_string_pretty(&v).unwrap()).expect("write replay");
    path
}

fn read_case<C: DeserializeOwned>(path: &str) -> Result<C, String> {
    let s = std::fs::read_to_string(path).map_err(|e| format!("{}: {}", path, e))?;
    let v: Value = serde_json::from_str(&s).map_err(|e| format!("{}: {}", path, e))?;
    let c = v.get("case").cloned().ok_or_else(|| format!("{}: no \"case\" key", path))?;
    serde_json::from_value(c).map_err(|e| format!("{}: case does not parse: {}", path, e))
}

fn is_known(known: &[KnownFinding], id: &str, sig: &str) -> Option<String> {
    known.iter().find(|k| k.property == id && k.status == "known" && k.signature == sig).map(|k| k.signature.clone())
}

fn checked_with_guard<P: Prop>(p: &P, ctx: &Ctx, case: &P::Case, ev: &mut Ev) -> Result<(), Fail> {
    match crate::eng::guarded(|| p.check(ctx, case, ev)) {
        Ok(r) => r,
        Err(panic) => Err(Fail::new("panic", panic)),
    }
}

impl<P: Prop> DynProp for P {
    fn id(&self) -> &'static str {
        Prop::id(self)
    }

    fn run_shard(&self, ctx: &Ctx) {
        let t0 = Instant::now();
        let id = Prop::id(self);
        let known = load_known_findings();
        let ev = RefCell::new(Ev::default());
        let mut res = ShardResult { shard: ctx.shard, ..Default::default() };
        let inflight_path = format!("{}/inflight-{}.json", ctx.outdir, ctx.shard);
        let write_inflight = |case: &P::Case| {
            if ctx.inflight || self.always_inflight() {
                let v = json!({ "property": id, "signature": "inflight", "detail": "case that was executing when the shard died or hung", "case": case });
                let _ = std::fs::write(&inflight_path, serde_json::to_string(&v).unwrap());
            }
        };
        let mut nviol = 0u32;

        // 1. committed regression replays (shard 0 only)
        if ctx.shard == 0 {
            let mut files: Vec<String> = std::fs::read_dir("/verif/regress")
                .map(|rd| {
                    rd.filter_map(|e| e.ok())
                        .map(|e| e.path().to_string_lossy().to_string())
                        .filter(|p| {
                            let name = p.rsplit('/').next().unwrap_or("");
                            name.starts_with(id) && name.ends_with(".json")
                        })
                        .collect()
                })
                .unwrap_or_default();
            files.sort();
            for f in files {
                match read_case::<P::Case>(&f) {
                    Err(e) => res.harness_errors.push(e),
                    Ok(case) => {
                        write_inflight(&case);
                        let mut e = ev.borrow_mut();
                        e.class("regress_replays");
                        if let Err(fail) = checked_with_guard(self, ctx, &case, &mut e) {
                            if let Some(sig) = is_known(&known, id, &fail.signature) {
                                *e.known_hits.entry(sig).or_insert(0) += 1;
                            } else {
                                res.violations.push(Violation { signature: fail.signature, detail: fail.detail, replay: f.clone(), decisive: true });
                            }
                        }
                    }
                }
            }
        }

        // 2. deterministic enumerations
        {
            let mut e = ev.borrow_mut();
            let mut found: Vec<(P::Case, Fail)> = Vec::new();
            let r = crate::eng::guarded(|| {
                self.enumerate(ctx, &mut e, &mut |case, fail| {
                    if found.len() < 3 {
                        found.push((case, fail));
                    }
                })
            });
            if let Err(panic) = r {
                res.harness_errors.push(format!("enumeration panicked: {}", panic));
            }
            for (case, fail) in found {
                if let Some(sig) = is_known(&known, id, &fail.signature) {
                    *e.known_hits.entry(sig).or_insert(0) += 1;
                } else {
                    nviol += 1;
                    let path = write_replay(id, &format!("s{}-sh{}-e{}", ctx.seed, ctx.shard, nviol), &case, &fail);
                    res.violations.push(Violation { decisive: fail.decisive, signature: fail.signature, detail: fail.detail, replay: path });
                }
            }
        }

        // 3. generated cases
        let total = self.cases(ctx.tier);
        let per = (total + ctx.nshards - 1) / ctx.nshards;
        if per > 0 {
            let cfg = Config {
                cases: per,
                failure_persistence: None,
                rng_seed: RngSeed::Fixed(ctx.shard_seed(id)),
                max_shrink_iters: self.max_shrink_iters(),
                max_global_rejects: 1_000_000,
                ..Config::default()
            };
            let mut runner = TestRunner::new(cfg);
            let strat = self.strategy(ctx);
            let first_fail: RefCell<Option<Fail>> = RefCell::new(None);
            let last_fail: RefCell<Option<Fail>> = RefCell::new(None);
            let shrink_started: std::cell::Cell<Option<Instant>> = std::cell::Cell::new(None);
            let shrink_budget = Duration::from_secs(self.shrink_budget_s());
            let result = runner.run(&strat, |case| {
                // shrinking re-executes the case; with process-level cases (timeouts!) that must stay bounded:
                // once the budget is used up every further candidate counts as passing, which ends the shrink
                if let Some(t) = shrink_started.get() {
                    if t.elapsed() > shrink_budget {
                        return Ok(());
                    }
                }
                write_inflight(&case);
                let mut e = ev.borrow_mut();
                match checked_with_guard(self, ctx, &case, &mut e) {
                    Ok(()) => Ok(()),
                    Err(fail) => {
                        if !e.frozen {
                            if let Some(sig) = is_known(&known, id, &fail.signature) {
                                *e.known_hits.entry(sig).or_insert(0) += 1;
                                return Ok(());
                            }
                        } else if is_known(&known, id, &fail.signature).is_some() {
                            // while shrinking, do not slide from an unknown failure into a known one
                            return Ok(());
                        }
                        // shrinking must stay on the same failure class
                        let first_sig = first_fail.borrow().as_ref().map(|f| f.signature.clone());
                        match first_sig {
                            Some(sig) => {
                                if sig != fail.signature {
                                    return Ok(());
                                }
                            }
                            None => *first_fail.borrow_mut() = Some(fail.clone()),
                        }
                        e.frozen = true;
                        if shrink_started.get().is_none() {
                            shrink_started.set(Some(Instant::now()));
                        }
                        *last_fail.borrow_mut() = Some(fail.clone());
                        Err(TestCaseError::fail(fail.signature.clone()))
                    }
                }
            });
            match result {
                Ok(()) => {}
                Err(TestError::Fail(reason, minimal)) => {
                    // re-run the minimal case once to get its own detail text
                    let mut scratch = Ev::default();
                    scratch.frozen = true;
                    let fail = match checked_with_guard(self, ctx, &minimal, &mut scratch) {
                        Err(f) => f,
                        Ok(()) => last_fail.borrow().clone().unwrap_or(Fail::new("unstable", format!("minimal case passed when re-run; proptest reason: {}", reason))),
                    };
                    nviol += 1;
                    let path = write_replay(id, &format!("s{}-sh{}-g{}", ctx.seed, ctx.shard, nviol), &minimal, &fail);
                    res.violations.push(Violation { decisive: fail.decisive, signature: fail.signature, detail: fail.detail, replay: path });
                }
                Err(TestError::Abort(reason)) => {
                    res.harness_errors.push(format!("proptest aborted: {}", reason));
                }
            }
        }

        let e = ev.into_inner();
        res.evaluations = e.evaluations;
        res.classes = e.classes;
        res.skipped = e.skipped;
        res.samples = e.samples;
        res.observations = e.observations;
        res.known_hits = e.known_hits;
        res.inconclusive = e.inconclusive;
        res.wall_s = t0.elapsed().as_secs_f64();
        res.done = true;
        write_u64s(&format!("{}/fps-{}.bin", ctx.outdir, ctx.shard), e.fps.iter().copied());
        if !e.pairs.is_empty() {
            write_u64s(&format!("{}/pairs-{}.bin", ctx.outdir, ctx.shard), e.pairs.iter().flat_map(|&(a, b)| [a, b]));
        }
        std::fs::write(format!("{}/shard-{}.json", ctx.outdir, ctx.shard), serde_json::to_string(&res).unwrap()).expect("write shard result");
        let _ = std::fs::remove_file(&inflight_path);
    }

    fn replay(&self, ctx: &Ctx, path: &str) -> Result<Result<(), Fail>, String> {
        let case: P::Case = read_case(path)?;
        let mut ev = Ev::default();
        Ok(checked_with_guard(self, ctx, &case, &mut ev))
    }

    fn run_parent(&self, tier: Tier, seed: u64) -> i32 {
        let t0 = Instant::now();
        let id = Prop::id(self);
        let exe = std::env::current_exe().expect("current_exe");
        let nshards = self.nshards(tier).max(1);
        let outdir = format!("/verif/target/run/{}-{}-{}", id, tier.name(), std::process::id());
        let _ = std::fs::remove_dir_all(&outdir);
        std::fs::create_dir_all(&outdir).expect("create run dir");
        let known = load_known_findings();
        let timeout = Duration::from_secs(self.shard_timeout_s(tier));

        let spawn = |shard: u32, inflight: bool| {
            std::process::Command::new(&exe)
                .args(["shard", id, tier.name(), &shard.to_string(), &nshards.to_string(), &seed.to_string(), &outdir])
                .env("VCHECK_INFLIGHT", if inflight { "1" } else { "0" })
                .stdin(std::process::Stdio::null())
                .spawn()
                .expect("spawn shard")
        };
        // wait for a set of children with one common deadline; returns per-shard outcome
        #[derive(PartialEq, Debug, Clone, Copy)]
        enum Outcome {
            Ok,
            Died(i32),
            Hung,
        }
        let wait_all = |mut kids: Vec<(u32, std::process::Child)>| -> Vec<(u32, Outcome)> {
            let start = Instant::now();
            let mut out = Vec::new();
            while !kids.is_empty() {
                let mut i = 0;
                while i < kids.len() {
                    match kids[i].1.try_wait() {
                        Ok(Some(st)) => {
                            let (sh, _) = kids.remove(i);
                            let ok = st.success() && std::path::Path::new(&format!("{}/shard-{}.json", outdir, sh)).exists();
                            use std::os::unix::process::ExitStatusExt;
                            let code = st.signal().unwrap_or_else(|| st.code().unwrap_or(-1));
                            out.push((sh, if ok { Outcome::Ok } else if st.code() == Some(crate::srch::HANG_EXIT_CODE) { Outcome::Hung } else { Outcome::Died(code) }));
                        }
                        _ => i += 1,
                    }
                }
                if start.elapsed() > timeout {
                    for (sh, mut k) in kids.drain(..) {
                        let _ = k.kill();
                        let _ = k.wait();
                        out.push((sh, Outcome::Hung));
                    }
                }
                std::thread::sleep(Duration::from_millis(20));
            }
            out
        };

        let kids: Vec<(u32, std::process::Child)> = (0..nshards).map(|s| (s, spawn(s, false))).collect();
        let outcomes = wait_all(kids);

        let mut violations: Vec<Violation> = Vec::new();
        let mut harness_errors: Vec<String> = Vec::new();
        let mut inconclusive_run: Vec<String> = Vec::new();

        // shards that died or hung: run again with the in-flight file on, to learn which case it was
        for &(sh, oc) in outcomes.iter().filter(|(_, oc)| *oc != Outcome::Ok) {
            let inflight_path = format!("{}/inflight-{}.json", outdir, sh);
            if !std::path::Path::new(&inflight_path).exists() {
                let again = wait_all(vec![(sh, spawn(sh, true))]);
                if again[0].1 == Outcome::Ok {
                    inconclusive_run.push(format!("shard {} {:?} once, completed when re-run", sh, oc));
                    continue;
                }
            }
            let is_hang = oc == Outcome::Hung;
            if std::path::Path::new(&inflight_path).exists() {
                let dest = format!("{}/{}-s{}-sh{}-{}.json", replay_dir(), id, seed, sh, if is_hang { "hang" } else { "crash" });
                let _ = std::fs::copy(&inflight_path, &dest);
                if (is_hang && self.hang_is_violation()) || (!is_hang && self.death_is_violation()) {
                    violations.push(Violation {
                        decisive: true,
                        signature: if is_hang { "hang".into() } else { "crash".into() },
                        detail: format!("shard {} {:?} while executing this case", sh, oc),
                        replay: dest,
                    });
                } else {
                    inconclusive_run.push(format!("shard {} {:?}; case kept at {}", sh, oc, dest));
                }
            } else {
                harness_errors.push(format!("shard {} {:?} and left no in-flight case", sh, oc));
            }
        }

        // merge
        let mut evaluations = 0u64;
        let mut classes = BTreeMap::new();
        let mut skipped = BTreeMap::new();
        let mut known_hits = BTreeMap::new();
        let mut inconclusive = BTreeMap::new();
        let mut samples: Vec<Value> = Vec::new();
        let mut observations: Vec<Value> = Vec::new();
        let mut fps: HashSet<u64> = HashSet::new();
        let mut shards_done = 0;
        let mut max_shard_wall = 0f64;
        for sh in 0..nshards {
            let p = format!("{}/shard-{}.json", outdir, sh);
            let Ok(s) = std::fs::read_to_string(&p) else { continue };
            let Ok(r) = serde_json::from_str::<ShardResult>(&s) else {
                harness_errors.push(format!("unreadable shard result {}", p));
                continue;
            };
            shards_done += 1;
            evaluations += r.evaluations;
            merge_maps(&mut classes, &r.classes);
            merge_maps(&mut skipped, &r.skipped);
            merge_maps(&mut known_hits, &r.known_hits);
            merge_maps(&mut inconclusive, &r.inconclusive);
            for s in r.samples {
                if samples.len() < 8 {
                    samples.push(s);
                }
            }
            for o in r.observations {
                if observations.len() < 20 {
                    observations.push(o);
                }
            }
            violations.extend(r.violations);
            harness_errors.extend(r.harness_errors);
            max_shard_wall = max_shard_wall.max(r.wall_s);
            fps.extend(read_u64s(&format!("{}/fps-{}.bin", outdir, sh)));
        }
        let (post_fails, post_extra) = self.post_merge(tier, seed, &outdir, nshards);
        for (i, f) in post_fails.into_iter().enumerate() {
            let path = write_replay(id, &format!("s{}-post{}", seed, i), &json!(null), &f);
            violations.push(Violation { decisive: true, signature: f.signature, detail: f.detail, replay: path });
        }

        // confirm wall-clock dependent failures from a fresh process
        let mut confirmed: Vec<Violation> = Vec::new();
        for v in violations {
            if self.confirm_in_fresh_process() && !v.decisive {
                let mut still = 0;
                for _ in 0..2 {
                    let st = std::process::Command::new(&exe)
                        .args(["replay", id, &v.replay])
                        .stdin(std::process::Stdio::null())
                        .stdout(std::process::Stdio::null())
                        .status();
                    if matches!(st, Ok(s) if s.code() == Some(1)) {
                        still += 1;
                    }
                }
                if still == 0 {
                    inconclusive_run.push(format!("failure {} did not reproduce from a fresh process (replay {})", v.signature, v.replay));
                    continue;
                }
            }
            confirmed.push(v);
        }
        let violations = confirmed;

        let wall = t0.elapsed().as_secs_f64();
        let mut extra = self.extra_evidence(tier, &classes);
        {
            let o = extra.as_object_mut().unwrap();
            o.insert("classes".into(), json!(classes));
            o.insert("skipped".into(), json!(skipped));
            o.insert("inconclusive".into(), json!(inconclusive));
            o.insert("inconclusive_run".into(), json!(inconclusive_run));
            o.insert("known_finding_hits".into(), json!(known_hits));
            o.insert("observations".into(), json!(observations));
            o.insert("shards".into(), json!(nshards));
            o.insert("shards_completed".into(), json!(shards_done));
            o.insert("max_shard_wall_s".into(), json!(max_shard_wall));
            o.insert("harness_errors".into(), json!(harness_errors));
            if let Some(pe) = post_extra.as_object() {
                for (k, v) in pe {
                    o.insert(k.clone(), v.clone());
                }
            }
            o.insert(
                "violation_list".into(),
                json!(violations.iter().map(|v| json!({"signature": v.signature, "detail": v.detail, "replay": v.replay})).collect::<Vec<_>>()),
            );
        }
        let evj = evidence_json(id, tier, seed, evaluations, fps.len() as u64, &self.rule(), &samples, extra, &self.assumptions(), wall, violations.len());
        let _ = std::fs::create_dir_all("/verif/evidence");
        std::fs::write(format!("/verif/evidence/{}.json", id), serde_json::to_string_pretty(&evj).unwrap()).expect("write evidence");
        let _ = std::fs::remove_dir_all(&outdir);

        println!(
            "{} {} seed={} evaluations={} distinct_nontrivial={} shards={}/{} wall={:.1}s",
            id,
            tier.name(),
            seed,
            evaluations,
            fps.len(),
            shards_done,
            nshards,
            wall
        );
        for (k, v) in &classes {
            println!("  class {:<40} {}", k, v);
        }
        for (k, v) in &skipped {
            println!("  skipped {:<38} {}", k, v);
        }
        for (k, v) in &inconclusive {
            println!("  inconclusive {:<33} {}", k, v);
        }
        for m in &inconclusive_run {
            println!("  INCONCLUSIVE {}", m);
        }
        for k in known.iter().filter(|k| k.property == id && k.status == "known") {
            println!("KNOWN-FINDING: property={} {} (hits this run: {})", id, k.what, known_hits.get(&k.signature).copied().unwrap_or(0));
        }
        for e in &harness_errors {
            println!("HARNESS-ERROR {}", e);
        }
        if !violations.is_empty() {
            // at most two lines per failure class; every replay file is listed in the evidence file
            let mut per_sig: BTreeMap<String, u32> = BTreeMap::new();
            for v in &violations {
                let n = per_sig.entry(v.signature.clone()).or_insert(0);
                *n += 1;
                if *n <= 2 {
                    println!("  failure [{}] {}", v.signature, v.detail.chars().take(400).collect::<String>());
                    println!("VIOLATION property={} replay={}", id, v.replay);
                }
            }
            for (sig, n) in per_sig {
                if n > 2 {
                    println!("  ... and {} more failing cases of class [{}] (replay files under /verif/replays, listed in the evidence file)", n - 2, sig);
                }
            }
            return 1;
        }
        if !harness_errors.is_empty() || shards_done < nshards {
            return 2;
        }
        0
    }
}
