//! Evidence plumbing: counters, classification, distinct non-trivial fingerprints, samples, and the
//! per-shard result files the parent merges into /verif/evidence/<ID>.json.
#![allow(dead_code)]

use serde::{Deserialize, Serialize};
use serde_json::{json, Value};
use std::collections::{BTreeMap, HashSet};

#[derive(Clone, Copy, PartialEq, Eq, Debug, Serialize, Deserialize)]
pub enum Tier {
    Quick,
    Thorough,
}

impl Tier {
    pub fn name(self) -> &'static str {
        match self {
            Tier::Quick => "quick",
            Tier::Thorough => "thorough",
        }
    }
    pub fn parse(s: &str) -> Option<Tier> {
        match s {
            "quick" => Some(Tier::Quick),
            "thorough" => Some(Tier::Thorough),
            _ => None,
        }
    }
    pub fn pick<T>(self, quick: T, thorough: T) -> T {
        match self {
            Tier::Quick => quick,
            Tier::Thorough => thorough,
        }
    }
}

/// What a failing case reports
#[derive(Clone, Debug, Serialize, Deserialize)]
pub struct Fail {
    /// stable class of the failure, matched against /verif/known_findings.json
    pub signature: String,
    pub detail: String,
    /// a self-contained case to save as the replay instead of the generated one (e.g. the two
    /// colliding positions of C05, one of which came from an earlier case)
    #[serde(default)]
    pub replay_case: Option<Value>,
    /// the symptom needs no wall clock and no second opinion (e.g. a spliced output line was read):
    /// the fresh-process confirmation that wall-clock oracles get is skipped
    #[serde(default)]
    pub decisive: bool,
}

impl Fail {
    pub fn new(signature: &str, detail: String) -> Fail {
        Fail { signature: signature.to_string(), detail, replay_case: None, decisive: false }
    }
    pub fn decisive(mut self) -> Fail {
        self.decisive = true;
        self
    }
    pub fn with_case(mut self, case: Value) -> Fail {
        self.replay_case = Some(case);
        self
    }
}

pub const MAX_SAMPLES: usize = 6;

#[derive(Default)]
pub struct Ev {
    pub evaluations: u64,
    pub fps: HashSet<u64>,
    pub classes: BTreeMap<String, u64>,
    pub skipped: BTreeMap<String, u64>,
    pub samples: Vec<Value>,
    pub observations: Vec<Value>,
    pub known_hits: BTreeMap<String, u64>,
    pub inconclusive: BTreeMap<String, u64>,
    /// extra (hash, key) pairs for cross-shard merges (C05)
    pub pairs: Vec<(u64, u64)>,
    /// set once a failure was seen: shrinking re-runs the closure and must not inflate the counts
    pub frozen: bool,
}

impl Ev {
    pub fn eval(&mut self) {
        if !self.frozen {
            self.evaluations += 1;
        }
    }
    pub fn evals(&mut self, n: u64) {
        if !self.frozen {
            self.evaluations += n;
        }
    }
    pub fn class(&mut self, name: &str) {
        if !self.frozen {
            *self.classes.entry(name.to_string()).or_insert(0) += 1;
        }
    }
    pub fn class_n(&mut self, name: &str, n: u64) {
        if !self.frozen && n > 0 {
            *self.classes.entry(name.to_string()).or_insert(0) += n;
        }
    }
    pub fn skip(&mut self, reason: &str) {
        if !self.frozen {
            *self.skipped.entry(reason.to_string()).or_insert(0) += 1;
        }
    }
    pub fn inconclusive(&mut self, reason: &str) {
        if !self.frozen {
            *self.inconclusive.entry(reason.to_string()).or_insert(0) += 1;
        }
    }
    /// Record a non-trivial case by fingerprint; the sample closure runs only while samples are wanted
    pub fn nontrivial(&mut self, fp: u64, sample: impl FnOnce() -> Value) {
        if self.frozen {
            return;
        }
        if self.fps.insert(fp) && self.samples.len() < MAX_SAMPLES {
            self.samples.push(sample());
        }
    }
    pub fn observe(&mut self, v: Value) {
        if !self.frozen && self.observations.len() < 20 {
            self.observations.push(v);
        }
    }
}

#[derive(Serialize, Deserialize, Clone, Debug)]
pub struct Violation {
    pub signature: String,
    pub detail: String,
    pub replay: String,
    #[serde(default)]
    pub decisive: bool,
}

#[derive(Serialize, Deserialize, Default)]
pub struct ShardResult {
    pub shard: u32,
    pub evaluations: u64,
    pub classes: BTreeMap<String, u64>,
    pub skipped: BTreeMap<String, u64>,
    pub samples: Vec<Value>,
    pub observations: Vec<Value>,
    pub known_hits: BTreeMap<String, u64>,
    pub inconclusive: BTreeMap<String, u64>,
    pub violations: Vec<Violation>,
    pub harness_errors: Vec<String>,
    pub wall_s: f64,
    pub done: bool,
}

pub fn write_u64s(path: &str, it: impl Iterator<Item = u64>) {
    use std::io::Write;
    let mut f = std::io::BufWriter::new(std::fs::File::create(path).expect("create fingerprint file"));
    for x in it {
        f.write_all(&x.to_le_bytes()).unwrap();
    }
}

pub fn read_u64s(path: &str) -> Vec<u64> {
    match std::fs::read(path) {
        Ok(b) => b.chunks_exact(8).map(|c| u64::from_le_bytes(c.try_into().unwrap())).collect(),
        Err(_) => Vec::new(),
    }
}

#[derive(Serialize, Deserialize, Clone, Debug)]
pub struct KnownFinding {
    pub property: String,
    /// "known" (suppressed, reported as KNOWN-FINDING) or "fixed" (documentation only)
    pub status: String,
    pub signature: String,
    pub what: String,
    #[serde(default)]
    pub commit: Option<String>,
    #[serde(default)]
    pub regress: Vec<String>,
}

pub fn load_known_findings() -> Vec<KnownFinding> {
    let path = "/verif/known_findings.json";
    match std::fs::read_to_string(path) {
        Ok(s) => serde_json::from_str(&s).unwrap_or_else(|e| panic!("{} is not valid: {}", path, e)),
        Err(_) => Vec::new(),
    }
}

pub fn merge_maps(into: &mut BTreeMap<String, u64>, from: &BTreeMap<String, u64>) {
    for (k, v) in from {
        *into.entry(k.clone()).or_insert(0) += v;
    }
}

pub fn evidence_json(
    id: &str,
    tier: Tier,
    seed: u64,
    evaluations: u64,
    distinct_nontrivial: u64,
    rule: &str,
    samples: &[Value],
    extra: Value,
    assumptions: &[String],
    wall_s: f64,
    violations: usize,
) -> Value {
    let mut coverage = json!({
        "evaluations": evaluations,
        "distinct_nontrivial": distinct_nontrivial,
        "rule": rule,
        "samples": samples,
    });
    if let (Some(c), Some(e)) = (coverage.as_object_mut(), extra.as_object()) {
        for (k, v) in e {
            c.insert(k.clone(), v.clone());
        }
    }
    json!({
        "property_id": id,
        "tier": tier.name(),
        "seed": seed,
        "level": "exploration",
        "coverage": coverage,
        "assumptions": assumptions,
        "wall_s": wall_s,
        "violations": violations,
    })
}
