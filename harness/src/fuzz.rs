//! libFuzzer campaigns (thorough tier): run the pre-built cargo-fuzz targets as child processes on
//! fresh corpus directories, collect execution counts and crash artifacts.
#![allow(dead_code)]

use std::process::{Command, Stdio};

pub const FUZZ_BIN_DIR: &str = "/verif/target/fuzz/x86_64-unknown-linux-gnu/release";

pub struct Campaign {
    pub executions: u64,
    pub artifacts: Vec<Vec<u8>>,
    pub workers: u32,
    pub notes: Vec<String>,
}

/// `workers` processes, each `-runs=runs_per_worker -seed=<seed+i+1>` (0 would mean random), fresh corpus
/// seeded from `seeds_dir`, `-len_control=0` so that full-length inputs are tried from the start.
pub fn campaign(target: &str, seeds_dir: &str, dict: Option<&str>, runs_per_worker: u64, seed: u64, max_len: u32, workers: u32) -> Campaign {
    let bin = format!("{}/{}", FUZZ_BIN_DIR, target);
    let mut c = Campaign { executions: 0, artifacts: Vec::new(), workers, notes: Vec::new() };
    if !std::path::Path::new(&bin).exists() {
        c.notes.push(format!("fuzz target {} not built", bin));
        return c;
    }
    let base = format!("/verif/target/run/fuzz-{}-{}", target, std::process::id());
    let _ = std::fs::remove_dir_all(&base);
    let mut kids = Vec::new();
    for w in 0..workers {
        let corpus = format!("{}/corpus-{}", base, w);
        let arts = format!("{}/art-{}/", base, w);
        std::fs::create_dir_all(&corpus).unwrap();
        std::fs::create_dir_all(&arts).unwrap();
        if let Ok(rd) = std::fs::read_dir(seeds_dir) {
            for e in rd.flatten() {
                let _ = std::fs::copy(e.path(), format!("{}/{}", corpus, e.file_name().to_string_lossy()));
            }
        }
        let mut cmd = Command::new(&bin);
        cmd.arg(&corpus)
            .arg(format!("-runs={}", runs_per_worker))
            .arg(format!("-seed={}", (seed.wrapping_mul(1000).wrapping_add(w as u64 + 1)) % 4_000_000_000 + 1))
            .arg("-len_control=0")
            .arg(format!("-max_len={}", max_len))
            .arg(format!("-artifact_prefix={}", arts))
            .arg("-print_final_stats=1")
            .stdin(Stdio::null())
            .stdout(Stdio::null())
            // to a file, not a pipe: a full pipe would make the workers run one after the other
            .stderr(std::fs::File::create(format!("{}/stderr-{}.txt", base, w)).map(Stdio::from).unwrap_or_else(|_| Stdio::null()));
        if let Some(d) = dict {
            cmd.arg(format!("-dict={}", d));
        }
        match cmd.spawn() {
            Ok(k) => kids.push((w, k, arts)),
            Err(e) => c.notes.push(format!("cannot start {}: {}", bin, e)),
        }
    }
    for (w, mut k, arts) in kids {
        match k.wait() {
            Ok(status) => {
                let err = std::fs::read(format!("{}/stderr-{}.txt", base, w)).map(|b| String::from_utf8_lossy(&b).to_string()).unwrap_or_default();
                let mut execs = None;
                for l in err.lines() {
                    if let Some(v) = l.strip_prefix("stat::number_of_executed_units:") {
                        execs = v.trim().parse::<u64>().ok();
                    }
                }
                c.executions += execs.unwrap_or(0);
                if execs.is_none() {
                    c.notes.push(format!("worker {}: no final stats (exit {:?})", w, status.code()));
                }
                if let Ok(rd) = std::fs::read_dir(&arts) {
                    for e in rd.flatten() {
                        if let Ok(b) = std::fs::read(e.path()) {
                            c.artifacts.push(b);
                        }
                    }
                }
            }
            Err(e) => c.notes.push(format!("worker {}: {}", w, e)),
        }
    }
    let _ = std::fs::remove_dir_all(&base);
    c
}
