//! Driver for the real engine executable: one reader thread per pipe (never `select` on a buffered
//! stream), a deadline on every expectation, a cap on the transcript, kill on drop.
#![allow(dead_code)]

use std::io::{BufRead, BufReader, Write};
use std::process::{Child, ChildStdin, Command, Stdio};
use std::sync::atomic::{AtomicBool, AtomicU64, Ordering};
use std::sync::mpsc::{channel, Receiver, RecvTimeoutError};
use std::sync::{Arc, Mutex};
use std::time::{Duration, Instant};

pub const ENGINE: &str = "/verif/target/engine/release/rustybait";
pub const ENGINE_CHECKED: &str = "/verif/target/engine-checked/release/rustybait";
/// lines forwarded to the session before the reader only drains (a flood is itself reported)
pub const LINE_CAP: u64 = 400_000;

pub struct Session {
    /// lines in which the output of two threads got spliced together (e.g. `info pv readyok`)
    pub spliced_lines: Vec<String>,
    child: Child,
    stdin: Option<ChildStdin>,
    rx: Receiver<Option<(Instant, String)>>,
    pub stderr: Arc<Mutex<Vec<String>>>,
    pub log: Vec<String>,
    pub lines_seen: Arc<AtomicU64>,
    pub flooded: Arc<AtomicBool>,
    pub eof: bool,
    pub t0: Instant,
}

impl Session {
    pub fn start(env: &[(String, String)]) -> Result<Session, String> {
        Session::start_bin(ENGINE, &[], env)
    }

    pub fn start_bin(path: &str, args: &[&str], env: &[(String, String)]) -> Result<Session, String> {
        let mut cmd = Command::new(path);
        cmd.args(args).stdin(Stdio::piped()).stdout(Stdio::piped()).stderr(Stdio::piped());
        // a clean, fixed environment: hook switches only when asked for
        cmd.env_remove("VERIF_SCHED").env_remove("VERIF_STOP_AFTER_POLLS").env_remove("VERIF_TABLE_OFF").env_remove("VERIF_AUTO_FEN");
        cmd.env("RUST_BACKTRACE", "0");
        for (k, v) in env {
            cmd.env(k, v);
        }
        let mut child = cmd.spawn().map_err(|e| format!("cannot start {}: {}", path, e))?;
        let stdout = child.stdout.take().unwrap();
        let stderr = child.stderr.take().unwrap();
        let (tx, rx) = channel();
        let lines_seen = Arc::new(AtomicU64::new(0));
        let flooded = Arc::new(AtomicBool::new(false));
        {
            let lines_seen = lines_seen.clone();
            let flooded = flooded.clone();
            std::thread::spawn(move || {
                let mut r = BufReader::with_capacity(1 << 16, stdout);
                let mut buf = Vec::new();
                loop {
                    buf.clear();
                    match r.read_until(b'\n', &mut buf) {
                        Ok(0) | Err(_) => break,
                        Ok(_) => {
                            let n = lines_seen.fetch_add(1, Ordering::Relaxed);
                            if n >= LINE_CAP {
                                flooded.store(true, Ordering::Relaxed);
                                continue;
                            }
                            let s = String::from_utf8_lossy(&buf).trim_end_matches(['\n', '\r']).to_string();
                            if tx.send(Some((Instant::now(), s))).is_err() {
                                break;
                            }
                        }
                    }
                }
                let _ = tx.send(None);
            });
        }
        let errs = Arc::new(Mutex::new(Vec::new()));
        {
            let errs = errs.clone();
            std::thread::spawn(move || {
                let r = BufReader::new(stderr);
                for l in r.lines().map_while(Result::ok) {
                    let mut g = errs.lock().unwrap();
                    if g.len() < 200 {
                        g.push(l);
                    }
                }
            });
        }
        let stdin = child.stdin.take();
        Ok(Session { spliced_lines: Vec::new(), child, stdin, rx, stderr: errs, log: Vec::new(), lines_seen, flooded, eof: false, t0: Instant::now() })
    }

    fn note(&mut self, s: String) {
        if self.log.len() < 4000 {
            self.log.push(s);
        }
    }

    pub fn send(&mut self, line: &str) -> bool {
        self.note(format!("> {}", line.chars().take(300).collect::<String>()));
        match self.stdin.as_mut() {
            Some(si) => si.write_all(line.as_bytes()).and_then(|_| si.write_all(b"\n")).and_then(|_| si.flush()).is_ok(),
            None => false,
        }
    }

    /// Next line, or None on timeout / end of output
    pub fn next_line(&mut self, timeout: Duration) -> Option<(Instant, String)> {
        if self.eof {
            return None;
        }
        match self.rx.recv_timeout(timeout) {
            Ok(Some((t, s))) => {
                self.note(format!("< {}", s.chars().take(200).collect::<String>()));
                if spliced(&s) && self.spliced_lines.len() < 10 {
                    self.spliced_lines.push(s.clone());
                }
                Some((t, s))
            }
            Ok(None) | Err(RecvTimeoutError::Disconnected) => {
                self.eof = true;
                None
            }
            Err(RecvTimeoutError::Timeout) => None,
        }
    }

    /// Read lines until `pred` matches one; the lines read (including the match) are returned.
    /// None on timeout or end of output (what was read stays in the log).
    pub fn read_until(&mut self, mut pred: impl FnMut(&str) -> bool, timeout_ms: u64) -> Option<Vec<String>> {
        self.read_until_timed(&mut pred, timeout_ms).map(|v| v.into_iter().map(|x| x.1).collect())
    }

    pub fn read_until_timed(&mut self, pred: &mut dyn FnMut(&str) -> bool, timeout_ms: u64) -> Option<Vec<(Instant, String)>> {
        let deadline = Instant::now() + Duration::from_millis(timeout_ms);
        let mut got = Vec::new();
        loop {
            let now = Instant::now();
            if now >= deadline {
                return None;
            }
            match self.next_line(deadline - now) {
                Some((t, s)) => {
                    let hit = pred(&s);
                    got.push((t, s));
                    if hit {
                        return Some(got);
                    }
                }
                None => {
                    if self.eof {
                        return None;
                    }
                }
            }
        }
    }

    /// Everything that arrives within `ms`
    pub fn drain(&mut self, ms: u64) -> Vec<String> {
        let deadline = Instant::now() + Duration::from_millis(ms);
        let mut got = Vec::new();
        loop {
            let now = Instant::now();
            if now >= deadline {
                return got;
            }
            match self.next_line(deadline - now) {
                Some((_, s)) => got.push(s),
                None => {
                    if self.eof {
                        return got;
                    }
                }
            }
        }
    }

    pub fn transcript_tail(&self, n: usize) -> String {
        let k = self.log.len().saturating_sub(n);
        self.log[k..].join(" | ")
    }

    pub fn stderr_text(&self) -> String {
        // the stderr reader is a separate thread: give it a moment after a crash
        for _ in 0..30 {
            if !self.stderr.lock().unwrap().is_empty() {
                std::thread::sleep(Duration::from_millis(20));
                break;
            }
            std::thread::sleep(Duration::from_millis(10));
        }
        self.stderr.lock().unwrap().join("\n")
    }

    pub fn panicked(&self) -> Option<String> {
        self.stderr.lock().unwrap().iter().find(|l| l.contains("panicked")).cloned()
    }

    /// CPU time (user + system, in clock ticks of 10 ms) the engine process has consumed so far
    pub fn cpu_ticks(&self) -> Option<u64> {
        let stat = std::fs::read_to_string(format!("/proc/{}/stat", self.pid())).ok()?;
        // fields after the parenthesised command name: state is field 3, utime 14, stime 15
        let rest = stat.rsplit_once(')')?.1;
        let f: Vec<&str> = rest.split_whitespace().collect();
        Some(f.get(11)?.parse::<u64>().ok()? + f.get(12)?.parse::<u64>().ok()?)
    }

    /// true when the process consumed (next to) no CPU time during the next `ms` milliseconds: it is waiting, not searching
    pub fn idle_for(&self, ms: u64) -> Option<bool> {
        let a = self.cpu_ticks()?;
        std::thread::sleep(Duration::from_millis(ms));
        let b = self.cpu_ticks()?;
        Some(b.saturating_sub(a) * 10 < ms / 20)
    }

    pub fn pid(&self) -> u32 {
        self.child.id()
    }

    /// Freeze the process (and, for wrapper commands that exec, the engine itself) for `ms` milliseconds
    pub fn freeze(&self, ms: u64) {
        unsafe {
            libc::kill(self.child.id() as i32, libc::SIGSTOP);
        }
        std::thread::sleep(Duration::from_millis(ms));
        unsafe {
            libc::kill(self.child.id() as i32, libc::SIGCONT);
        }
    }

    pub fn alive(&mut self) -> bool {
        matches!(self.child.try_wait(), Ok(None))
    }

    /// Send `quit`, wait up to `grace_ms`; Some(code) when the process ended by itself (signal = 128+n)
    pub fn quit_within(&mut self, grace_ms: u64) -> Option<i32> {
        self.send("quit");
        self.wait_exit(grace_ms)
    }

    pub fn wait_exit(&mut self, grace_ms: u64) -> Option<i32> {
        let deadline = Instant::now() + Duration::from_millis(grace_ms);
        loop {
            match self.child.try_wait() {
                Ok(Some(st)) => {
                    use std::os::unix::process::ExitStatusExt;
                    return Some(st.code().unwrap_or_else(|| 128 + st.signal().unwrap_or(0)));
                }
                _ => {
                    if Instant::now() >= deadline {
                        return None;
                    }
                    std::thread::sleep(Duration::from_millis(5));
                }
            }
        }
    }

    pub fn close_stdin(&mut self) {
        self.stdin = None;
    }

    pub fn quit(mut self) {
        let _ = self.quit_within(2000);
        self.kill();
    }

    pub fn kill(&mut self) {
        let _ = self.child.kill();
        let _ = self.child.wait();
    }
}

impl Drop for Session {
    fn drop(&mut self) {
        self.kill();
    }
}

#[derive(Debug, Clone)]
pub struct Shown {
    pub hash: String,
    pub fen: String,
    pub pgn: String,
    pub board: Vec<String>,
}

/// Parse the output of `show` (the Display text of the game) out of a list of lines
pub fn parse_show(lines: &[String]) -> Option<Shown> {
    let hi = lines.iter().rposition(|l| l.starts_with("Hash: "))?;
    let hash = lines[hi][6..].trim().to_string();
    let fen = lines.get(hi + 1)?.strip_prefix("Fen: ")?.trim().to_string();
    let pgn = lines.get(hi + 2)?.strip_prefix("PGN:")?.trim().to_string();
    let mut board = Vec::new();
    for l in &lines[hi + 3..] {
        let t = l.trim_end();
        if t.len() > 2 && t.as_bytes()[0].is_ascii_digit() && t.as_bytes()[1] == b' ' && t.contains('|') {
            board.push(t.to_string());
        }
    }
    Some(Shown { hash, fen, pgn, board })
}

pub fn fen4_of(fen: &str) -> String {
    fen.split_ascii_whitespace().take(4).collect::<Vec<_>>().join(" ")
}

/// `info depth N` lines of a search transcript
pub fn info_depths(lines: &[String]) -> Vec<u32> {
    lines.iter().filter_map(|l| l.strip_prefix("info depth ")).filter_map(|s| s.trim().parse().ok()).collect()
}

pub fn info_pvs(lines: &[String]) -> Vec<Vec<String>> {
    lines.iter().filter_map(|l| l.strip_prefix("info pv")).map(|s| s.split_ascii_whitespace().map(|x| x.to_string()).collect()).collect()
}

pub fn bestmove_of(lines: &[String]) -> Option<String> {
    lines.iter().rev().find_map(|l| l.strip_prefix("bestmove ")).map(|s| s.trim().to_string())
}

/// `readyok`, tolerant of being spliced into another line (only C14 insists on the exact line)
pub fn readyok(l: &str) -> bool {
    l.contains("readyok")
}

pub fn looks_like_move(t: &str) -> bool {
    let b = t.as_bytes();
    (b.len() == 4 || b.len() == 5)
        && (b'a'..=b'h').contains(&b[0])
        && (b'1'..=b'8').contains(&b[1])
        && (b'a'..=b'h').contains(&b[2])
        && (b'1'..=b'8').contains(&b[3])
        && (b.len() == 4 || b"qrbn".contains(&b[4]))
}

/// A stdout line that can only arise when the output of two threads was spliced together:
/// a protocol word in the middle of a line, or an `info pv` line with a token that is not a move.
pub fn spliced(l: &str) -> bool {
    for w in ["readyok", "uciok", "bestmove ", "error:", "info depth", "info score", "info nodes", "info time"] {
        if let Some(i) = l.find(w) {
            if i > 0 {
                return true;
            }
        }
    }
    if let Some(rest) = l.strip_prefix("info pv") {
        if rest.split_ascii_whitespace().any(|t| !looks_like_move(t)) {
            return true;
        }
    }
    false
}
