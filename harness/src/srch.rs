//! In-process access to the engine's search: run one search with captured `info` output, a
//! watchdog that plays the role of `stop`, and panics turned into values.
#![allow(dead_code)]

use crate::capture;
use crate::eng::{self, Game};
pub use rb::search::{get_best_move_entry, get_best_move_until_stop, TranspositionTable};
use std::sync::atomic::{AtomicBool, Ordering::Relaxed};
use std::time::{Duration, Instant};

/// exit code of a shard whose in-process search ignored the stop flag
pub const HANG_EXIT_CODE: i32 = 86;

/// set by `vcheck replay`: (saved stdout fd, property id, replay path)
pub static REPLAY_NOTE: std::sync::Mutex<Option<(i32, String, String)>> = std::sync::Mutex::new(None);

pub fn new_table() -> TranspositionTable {
    TranspositionTable::default()
}

#[derive(Debug, Clone)]
pub struct SearchOut {
    /// UCI text of the returned move
    pub best: Option<String>,
    /// everything the search printed
    pub lines: Vec<String>,
    /// the watchdog had to stop the search
    pub watchdog_fired: bool,
    /// time between the watchdog's stop and the return of the search
    pub stop_latency_ms: Option<u64>,
    pub panicked: Option<String>,
    pub wall_ms: u64,
}

impl SearchOut {
    pub fn depths(&self) -> Vec<u32> {
        crate::uci::info_depths(&self.lines)
    }
    pub fn pvs(&self) -> Vec<Vec<String>> {
        crate::uci::info_pvs(&self.lines)
    }
    pub fn scores(&self) -> Vec<i32> {
        self.lines.iter().filter_map(|l| l.strip_prefix("info score cp ")).filter_map(|s| s.trim().parse().ok()).collect()
    }
}

/// Run `get_best_move_until_stop`. If it has not returned after `watchdog_ms` the stop flag is
/// cleared (exactly what the UCI `stop` command does).
pub fn run_search(g: &Game, table: &mut TranspositionTable, depth: Option<u8>, watchdog_ms: u64) -> SearchOut {
    run_search_flag(g, table, depth, watchdog_ms, true)
}

/// `running` = the value of the stop flag when the search starts: false is the `stop` (or the timer) that arrives
/// before the search thread has executed its first statement
pub fn run_search_flag(g: &Game, table: &mut TranspositionTable, depth: Option<u8>, watchdog_ms: u64, running: bool) -> SearchOut {
    let flag = AtomicBool::new(running);
    let done = AtomicBool::new(false);
    let fired_at: std::sync::Mutex<Option<Instant>> = std::sync::Mutex::new(None);
    capture::reset();
    let t0 = Instant::now();
    let mut result = None;
    let mut panicked = None;
    std::thread::scope(|s| {
        s.spawn(|| {
            let deadline = t0 + Duration::from_millis(watchdog_ms);
            while !done.load(Relaxed) {
                if Instant::now() >= deadline {
                    *fired_at.lock().unwrap() = Some(Instant::now());
                    flag.store(false, Relaxed);
                    // a search that does not come back within 25 s of the stop can never be ended from
                    // inside this process: leave with the exit code the parent reads as "hung"
                    let give_up = Instant::now() + Duration::from_secs(25);
                    while !done.load(Relaxed) {
                        if Instant::now() >= give_up {
                            eprintln!("vcheck: search ignored the stop flag for 25 s; giving up");
                            // when replaying a saved case, say so in the usual form on the real stdout
                            if let Some((fd, id, path)) = REPLAY_NOTE.lock().unwrap().clone() {
                                let msg = format!("  failure [hang] the search ignored the stop flag for 25 s\nVIOLATION property={} replay={}\n", id, path);
                                unsafe {
                                    libc::write(fd, msg.as_ptr() as *const libc::c_void, msg.len());
                                }
                                std::process::exit(1);
                            }
                            std::process::exit(HANG_EXIT_CODE);
                        }
                        std::thread::sleep(Duration::from_millis(5));
                    }
                    break;
                }
                std::thread::sleep(Duration::from_millis(2));
            }
        });
        match eng::guarded(|| get_best_move_until_stop(g, table, &flag, depth)) {
            Ok(r) => result = r.map(|m| m.uci_notation()),
            Err(p) => panicked = Some(p),
        }
        done.store(true, Relaxed);
    });
    let end = Instant::now();
    let fired = *fired_at.lock().unwrap();
    let text = capture::take();
    SearchOut {
        best: result,
        lines: text.lines().map(|l| l.to_string()).collect(),
        watchdog_fired: fired.is_some(),
        stop_latency_ms: fired.map(|f| end.duration_since(f).as_millis() as u64),
        panicked,
        wall_ms: end.duration_since(t0).as_millis() as u64,
    }
}

pub use rb::verif_hooks as hooks;
