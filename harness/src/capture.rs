//! The engine's search prints `info …` lines with `println!`. Shards point fd 1 at a scratch file
//! so that (a) the noise never reaches the parent and (b) the lines of one search can be read back.
#![allow(dead_code)]

use std::io::Write;
use std::os::unix::io::AsRawFd;
use std::sync::Mutex;

static STATE: Mutex<Option<(std::fs::File, String)>> = Mutex::new(None);

/// Redirect fd 1 to `<dir>/stdout-<tag>.txt`
pub fn redirect_stdout(dir: &str, tag: &str) {
    let path = format!("{}/stdout-{}.txt", dir, tag);
    let f = std::fs::OpenOptions::new().create(true).read(true).write(true).truncate(true).open(&path).expect("open capture file");
    let _ = std::io::stdout().flush();
    unsafe {
        libc::dup2(f.as_raw_fd(), 1);
    }
    *STATE.lock().unwrap() = Some((f, path));
}

/// Forget everything printed so far
pub fn reset() {
    let _ = std::io::stdout().flush();
    if let Some((f, _)) = STATE.lock().unwrap().as_ref() {
        unsafe {
            libc::ftruncate(f.as_raw_fd(), 0);
            libc::lseek(1, 0, libc::SEEK_SET);
        }
    }
}

/// Everything printed since the last `reset`
pub fn take() -> String {
    let _ = std::io::stdout().flush();
    let g = STATE.lock().unwrap();
    let Some((_, path)) = g.as_ref() else { return String::new() };
    let s = std::fs::read(path).map(|b| String::from_utf8_lossy(&b).to_string()).unwrap_or_default();
    drop(g);
    reset();
    s
}

pub fn cleanup() {
    if let Some((_, path)) = STATE.lock().unwrap().take() {
        let _ = std::fs::remove_file(path);
    }
}
