use vcheck::ev::Tier;
use vcheck::runner::Ctx;

fn usage() -> ! {
    eprintln!("usage: vcheck run <ID> <quick|thorough> | shard <ID> <tier> <i> <n> <seed> <outdir> | replay <ID> <path> | selftest | list");
    std::process::exit(2)
}

fn seed_from_env() -> u64 {
    std::env::var("VERIF_SEED").ok().and_then(|s| s.trim().parse::<i128>().ok()).map(|v| v as u64).unwrap_or(0)
}

fn main() {
    let args: Vec<String> = std::env::args().collect();
    if args.len() < 2 {
        usage();
    }
    let checked_build = cfg!(debug_assertions);
    match args[1].as_str() {
        "selftest" => {
            if let Err(e) = vcheck::props::selftest() {
                eprintln!("SELFTEST FAILED: {}", e);
                std::process::exit(2);
            }
            println!("selftest ok");
        }
        "mkgolden" => {
            // prints the golden table (model combiner over the key file); engine value shown beside it
            let z = vcheck::refchess::Zob::repo();
            for f in vcheck::gen::CURATED.iter().step_by(3).take(16) {
                let p = vcheck::refchess::Pos::from_fen(f).unwrap();
                let g = vcheck::eng::Game::new(f).unwrap();
                println!("    (\"{}\", \"{:X}\"), // engine {:X}", f, z.hash(&p), g.hash());
            }
        }
        "fuzzrun" => {
            // vcheck fuzzrun <target> <seeds dir> <runs per worker> <workers>: campaign smoke test
            let c = vcheck::fuzz::campaign(&args[2], &args[3], None, args[4].parse().unwrap(), seed_from_env(), 120, args[5].parse().unwrap());
            println!("executions {} artifacts {} notes {:?}", c.executions, c.artifacts.len(), c.notes);
            for a in c.artifacts.iter().take(5) {
                println!("  artifact {:?}", String::from_utf8_lossy(a));
            }
        }
        "list" => {
            for p in vcheck::props::all() {
                println!("{}", p.id());
            }
        }
        "run" => {
            if args.len() < 4 {
                usage();
            }
            let Some(tier) = Tier::parse(&args[3]) else { usage() };
            let Some(p) = vcheck::props::by_id(&args[2]) else {
                eprintln!("unknown property {}", args[2]);
                std::process::exit(2)
            };
            if let Err(e) = vcheck::props::selftest_quick() {
                eprintln!("HARNESS-ERROR oracle self-test failed: {}", e);
                std::process::exit(2);
            }
            std::process::exit(p.run_parent(tier, seed_from_env()));
        }
        "shard" => {
            if args.len() < 8 {
                usage();
            }
            let Some(tier) = Tier::parse(&args[3]) else { usage() };
            let Some(p) = vcheck::props::by_id(&args[2]) else { std::process::exit(2) };
            let ctx = Ctx {
                tier,
                seed: args[6].parse().unwrap(),
                shard: args[4].parse().unwrap(),
                nshards: args[5].parse().unwrap(),
                outdir: args[7].clone(),
                inflight: std::env::var("VCHECK_INFLIGHT").map(|v| v == "1").unwrap_or(false),
                checked_build,
            };
            vcheck::eng::install_panic_hook();
            vcheck::capture::redirect_stdout(&ctx.outdir, &format!("sh{}", ctx.shard));
            p.run_shard(&ctx);
            vcheck::capture::cleanup();
        }
        "replay" => {
            if args.len() < 4 {
                usage();
            }
            let Some(p) = vcheck::props::by_id(&args[2]) else {
                eprintln!("unknown property {}", args[2]);
                std::process::exit(2)
            };
            let outdir = format!("/verif/target/run/replay-{}", std::process::id());
            std::fs::create_dir_all(&outdir).unwrap();
            let ctx = Ctx { tier: Tier::Quick, seed: seed_from_env(), shard: 0, nshards: 1, outdir: outdir.clone(), inflight: false, checked_build };
            vcheck::eng::install_panic_hook();
            // keep our own report on the real stdout: duplicate it before the engine's output is redirected
            let saved = unsafe { libc::dup(1) };
            *vcheck::srch::REPLAY_NOTE.lock().unwrap() = Some((saved, p.id().to_string(), args[3].clone()));
            vcheck::capture::redirect_stdout(&outdir, "replay");
            let r = p.replay(&ctx, &args[3]);
            vcheck::capture::cleanup();
            unsafe {
                libc::dup2(saved, 1);
            }
            let _ = std::fs::remove_dir_all(&outdir);
            match r {
                Err(e) => {
                    println!("HARNESS-ERROR {}", e);
                    std::process::exit(2);
                }
                Ok(Ok(())) => {
                    println!("replay passed: {} holds on {}", p.id(), args[3]);
                }
                Ok(Err(fail)) => {
                    println!("  failure [{}] {}", fail.signature, fail.detail);
                    println!("VIOLATION property={} replay={}", p.id(), args[3]);
                    std::process::exit(1);
                }
            }
        }
        _ => usage(),
    }
}
