//! vcheck: property-based testing and fuzzing machinery for RustyBait (Daniel729/chess).
pub mod capture;
pub mod eng;
pub mod fuzz;
pub mod ev;
pub mod gen;
pub mod refchess;
pub mod runner;
pub mod srch;
pub mod uci;
pub mod props;

/// The engine's piece-square tables, read a second time straight from the repository
#[path = "/repo/src/chess/scores.rs"]
#[allow(dead_code)]
pub mod sc;
