//! C20: the board display and move record show what was actually played.

use crate::eng::{self, Game};
use crate::ev::*;
use crate::gen::*;
use crate::refchess::*;
use crate::runner::{Ctx, Prop};
use crate::uci::{self, Session, Shown};
use proptest::prelude::*;
use serde::{Deserialize, Serialize};
use serde_json::json;

#[derive(Serialize, Deserialize, Clone, Debug)]
pub struct ShowCase {
    pub walk: Walk,
    /// also drive the real binary with `position … moves …` + `show`
    pub via_uci: bool,
}

pub struct C20;

fn piece_letter(c: u8) -> &'static str {
    match c.to_ascii_lowercase() {
        b'k' => "K",
        b'q' => "Q",
        b'r' => "R",
        b'b' => "B",
        b'n' => "N",
        _ => "",
    }
}

/// Parse one move-record token: optional piece letter, optional origin file, optional origin rank,
/// optional `x`, destination square, optional `=` + promotion letter, optional check marks.
struct Tok {
    piece: String,
    from_file: Option<char>,
    capture: bool,
    dest: String,
    promo: Option<char>,
}

fn parse_token(t: &str) -> Option<Tok> {
    let t = t.trim_end_matches(['+', '#']);
    let (body, promo) = match t.split_once('=') {
        Some((b, p)) => {
            let mut pc = p.chars();
            let c = pc.next()?;
            if pc.next().is_some() {
                return None;
            }
            (b, Some(c))
        }
        None => (t, None),
    };
    let ch: Vec<char> = body.chars().collect();
    if ch.len() < 2 {
        return None;
    }
    let dest: String = ch[ch.len() - 2..].iter().collect();
    let d: Vec<char> = dest.chars().collect();
    if !('a'..='h').contains(&d[0]) || !('1'..='8').contains(&d[1]) {
        return None;
    }
    let mut rest = &ch[..ch.len() - 2];
    let mut piece = String::new();
    if let Some(&c) = rest.first() {
        if "KQRBN".contains(c) {
            piece.push(c);
            rest = &rest[1..];
        }
    }
    let mut capture = false;
    if let Some(&c) = rest.last() {
        if c == 'x' {
            capture = true;
            rest = &rest[..rest.len() - 1];
        }
    }
    let mut from_file = None;
    for &c in rest {
        if ('a'..='h').contains(&c) && from_file.is_none() {
            from_file = Some(c);
        } else if ('1'..='8').contains(&c) {
        } else {
            return None;
        }
    }
    Some(Tok { piece, from_file, capture, dest, promo })
}

/// Judge the `show` text against the model: `p` is the current position, `hist` the (position before, move) list
pub fn judge_show(sh: &Shown, p: &Pos, hist: &[(Pos, RMove)], zob: &Zob, ev: &mut Ev) -> Result<(), Fail> {
    // Hash line
    let want_hash = format!("{:X}", zob.hash(p));
    if sh.hash.trim_start_matches("0x").trim_start_matches('0').to_ascii_uppercase() != want_hash.trim_start_matches('0') {
        return Err(Fail::new("show-hash-line-disagrees-with-the-game", format!("position {} : Hash line {} , key-file combination {}", p.fen4(), sh.hash, want_hash)));
    }
    if uci::fen4_of(&sh.fen) != p.fen4() {
        return Err(Fail::new("show-fen-line-disagrees-with-the-game", format!("Fen line {:?} , position {}", sh.fen, p.fen4())));
    }
    let want_board = p.diagram();
    let got: Vec<String> = sh.board.iter().map(|l| l.trim_end().to_string()).collect();
    if got != want_board {
        return Err(Fail::new("show-diagram-disagrees-with-the-game", format!("position {} : diagram {:?} , expected {:?}", p.fen4(), got, want_board)));
    }
    // move record
    let toks: Vec<&str> = sh.pgn.split_ascii_whitespace().filter(|t| !(t.ends_with('.') && t[..t.len() - 1].bytes().all(|c| c.is_ascii_digit()))).collect();
    if toks.len() != hist.len() {
        return Err(Fail::new("move-record-has-wrong-number-of-moves", format!("{} moves played, record {:?}", hist.len(), sh.pgn)));
    }
    // move numbers: "1." before every white... the record numbers pairs of plies from 1
    let numbers: Vec<&str> = sh.pgn.split_ascii_whitespace().filter(|t| t.ends_with('.')).collect();
    for (i, nmb) in numbers.iter().enumerate() {
        if *nmb != format!("{}.", i + 1) {
            return Err(Fail::new("move-record-numbering", format!("record {:?}", sh.pgn)));
        }
    }
    for (i, (before, m)) in hist.iter().enumerate() {
        let t = toks[i];
        let bad = |why: &str| Fail::new("move-record-misdescribes-a-move", format!("move {} ({}) played in {} is recorded as {:?}: {}", i + 1, m.uci(), before.fen4(), t, why));
        ev.eval();
        match m.kind {
            K_OO => {
                if t != "O-O" && t != "0-0" {
                    return Err(bad("castling short must read O-O"));
                }
                ev.class("record_castling");
                continue;
            }
            K_OOO => {
                if t != "O-O-O" && t != "0-0-0" {
                    return Err(bad("castling long must read O-O-O"));
                }
                ev.class("record_castling");
                continue;
            }
            _ => {}
        }
        let Some(tok) = parse_token(t) else { return Err(bad("token is not of the form [piece][file][x]square[=piece]")) };
        let mover = before.b[m.from as usize];
        let capture = before.is_capture(*m);
        let want_piece = piece_letter(mover);
        if tok.piece != want_piece {
            return Err(bad(&format!("moving piece should be written {:?}", want_piece)));
        }
        if tok.capture != capture {
            return Err(bad(if capture { "capture not marked with x" } else { "x on a move that captured nothing" }));
        }
        if tok.dest != sq_name(m.to) {
            return Err(bad(&format!("destination should be {}", sq_name(m.to))));
        }
        let from_file = (b'a' + m.from % 8) as char;
        if m.promo == 0 {
            if tok.from_file != Some(from_file) {
                return Err(bad(&format!("origin file should be {}", from_file)));
            }
            if tok.promo.is_some() {
                return Err(bad("promotion suffix on a move that does not promote"));
            }
        } else {
            if let Some(f) = tok.from_file {
                if f != from_file {
                    return Err(bad(&format!("origin file should be {}", from_file)));
                }
            }
            let want = (m.promo as char).to_ascii_uppercase();
            if tok.promo != Some(want) {
                return Err(bad(&format!("promotion piece should be {}", want)));
            }
            ev.class(match (m.promo, capture) {
                (b'q', false) => "record_promo_q",
                (b'q', true) => "record_promo_q_capture",
                (b'r', false) => "record_promo_r",
                (b'r', true) => "record_promo_r_capture",
                (b'b', false) => "record_promo_b",
                (b'b', true) => "record_promo_b_capture",
                (_, false) => "record_promo_n",
                (_, true) => "record_promo_n_capture",
            });
        }
        if m.kind == K_EP {
            ev.class("record_en_passant");
        } else if capture {
            ev.class("record_capture");
        }
    }
    Ok(())
}

fn shown_of_text(text: &str) -> Option<Shown> {
    let lines: Vec<String> = text.lines().map(|l| l.to_string()).collect();
    uci::parse_show(&lines)
}

impl Prop for C20 {
    type Case = ShowCase;

    fn id(&self) -> &'static str {
        "C20"
    }

    fn rule(&self) -> String {
        "Cases: generated games (walks with kind preferences forcing all four promotion pieces with and without capture, en passant, castling, captures) played into the game record. After every move in-process (format!(\"{}\", game)) and, for about 1 game in 30, at the end through the real binary (`position fen F moves …` + `show`): the Hash line must be the key-file combination of the reference position, the Fen line's fields 1-4 and the diagram must be the reference model's rendering, and every move-record token is parsed ([piece][file][rank][x]square[=piece][+#], O-O, O-O-O) and compared with the model's move: piece letter, origin file (mandatory except on promotions), x iff capture, destination, promotion letter Q/R/B/N. evaluations = move-record tokens judged. Non-trivial game: contains a promotion, en passant, castling or capture; distinct by game (start + moves).".into()
    }

    fn assumptions(&self) -> Vec<String> {
        vec![
            "the record's own format omits the origin file on promotions and castling; that is not asserted".into(),
            "Hash is printed in upper-case hex without leading zeros; leading zeros are tolerated".into(),
        ]
    }

    fn cases(&self, tier: Tier) -> u32 {
        tier.pick(100_000, 1_500_000)
    }

    fn strategy(&self, _ctx: &Ctx) -> BoxedStrategy<ShowCase> {
        (prop_oneof![4 => walk_strategy(false), 1 => walk_strategy(true)], prop::bool::weighted(0.03)).prop_map(|(walk, via_uci)| ShowCase { walk, via_uci }).boxed()
    }

    fn check(&self, _ctx: &Ctx, case: &ShowCase, ev: &mut Ev) -> Result<(), Fail> {
        thread_local! { static ZOB: Zob = Zob::repo(); }
        let Some(r) = resolve_walk(&case.walk) else {
            ev.skip("construction did not yield a sane position");
            return Ok(());
        };
        let start_fen = r.start.fen6();
        let mut g = Game::new(&start_fen).map_err(|e| Fail::new("sane-position-not-importable", e.to_string()))?;
        let mut p = r.start.clone();
        let mut hist: Vec<(Pos, RMove)> = Vec::new();
        let mut special = false;
        // judge the display at the start, then after every move for short games, every 8th ply for long ones
        let n = r.moves.len();
        for i in 0..=n {
            if i == n || n <= 24 || i % 8 == 0 {
                let text = format!("{}", g);
                let Some(sh) = shown_of_text(&text) else {
                    return Err(Fail::new("show-text-unreadable", format!("cannot find Hash/Fen/PGN lines and diagram in {:?}", text)));
                };
                ZOB.with(|z| judge_show(&sh, &p, &hist, z, ev))?;
            }
            if i < n {
                let m = r.moves[i];
                let Some(em) = eng::find_legal(&mut g, &m.uci()) else {
                    return Err(Fail::new("legal-move-not-offered", format!("{} in {}", m.uci(), g.fen())));
                };
                if m.kind >= K_EP || m.promo != 0 || p.is_capture(m) {
                    special = true;
                }
                g.push_history(em);
                hist.push((p.clone(), m));
                p = p.make(m);
            }
        }
        if special {
            ev.nontrivial(mix(fp_pos(&r.start) ^ fp_bytes(moves_text(&r.moves).as_bytes())), || json!({"start": start_fen, "moves": moves_text(&r.moves)}));
        }
        if case.via_uci {
            let mut sess = Session::start(&[]).map_err(|e| Fail::new("harness", e))?;
            sess.send(&format!("position fen {} moves {}", start_fen, moves_text(&r.moves)));
            sess.send("show");
            let Some(lines) = sess.read_until(|l| l.starts_with("   a b c") || l.starts_with("error:"), 15_000) else {
                sess.kill();
                return Err(Fail::new("show-unanswered", format!("game {} moves {}", start_fen, moves_text(&r.moves))));
            };
            let Some(sh) = uci::parse_show(&lines) else {
                sess.kill();
                return Err(Fail::new("show-text-unreadable", format!("{:?}", lines)));
            };
            ev.class("uci_sessions");
            ZOB.with(|z| judge_show(&sh, &p, &hist, z, ev))?;
            sess.quit();
        }
        Ok(())
    }

    fn enumerate(&self, ctx: &Ctx, ev: &mut Ev, report: &mut dyn FnMut(ShowCase, Fail)) {
        // all four promotion pieces with and without capture, both colours, from fixed positions
        let roots = [23u16, 24, 25, 26];
        let mut i = 0u64;
        for &root in &roots {
            for idx in (0..65536u32).step_by(2048) {
                i += 1;
                if !ctx.owns(i) {
                    continue;
                }
                let case = ShowCase {
                    walk: Walk { start: Start::Curated(root), picks: vec![Pick { kind: PK_PROMO, idx: idx as u16 }, Pick { kind: PK_PROMO, idx: (idx * 7 % 65536) as u16 }, Pick { kind: PK_CAPTURE, idx: idx as u16 }] },
                    via_uci: idx % 16384 == 0,
                };
                if let Err(f) = self.check(ctx, &case, ev) {
                    report(case, f);
                    return;
                }
            }
        }
    }
}
