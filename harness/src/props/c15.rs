//! C15: unchecked fast paths stay within bounds. Runs on the CHECKED build flavour (debug
//! assertions on): `get_unchecked`, `push_unchecked`, `new_unsafe`, `add_unsafe` precondition
//! violations become panics or aborts instead of silent memory corruption.

use crate::eng::{self, Game};
use crate::ev::*;
use crate::gen::*;
use crate::refchess::*;
use crate::runner::{Ctx, Prop};
use crate::srch;
use crate::uci::{self, Session};
use proptest::collection::vec;
use proptest::prelude::*;
use serde::{Deserialize, Serialize};
use serde_json::json;

#[derive(Serialize, Deserialize, Clone, Debug)]
pub enum BoundsCase {
    /// high-mobility board: generated heavy pieces, then greedy improvement of the MODEL's pseudo-legal count
    Mobility { men: Vec<(u8, u8)>, wk: u8, bk: u8, white: bool, steps: Vec<(u8, u8)> },
    /// a position given as text: import, both move lists, depth-2 search (in-process) and `go depth 2` (binary)
    Fen { fen: String, via_uci: bool },
    /// long game: shuffles from a small position up to `plies`, then searches
    LongGame { root: u8, plies: u16, picks: Vec<u16>, via_uci: bool, infinite_ms: u16 },
    /// self-play (`rustybait auto 2`) from a drawn ending
    SelfPlay { fen: String },
    /// sane position with many promoted pieces searched to depth 3-4
    Promoted { construct: Construct, depth: u8 },
    /// any board the FEN reader accepts: all twelve piece kinds anywhere (pawns on the first and eighth
    /// rank included), any castling-rights bits, any en-passant file, with or without a pawn to match
    Wild { men: Vec<(u8, u8)>, wk: u8, bk: u8, white: bool, cr: u8, ep: u8, via_uci: bool },
    /// literal UCI lines for the checked binary, then `run_ms` of waiting, `isready`, `stop`, `quit`
    Script { lines: Vec<String>, run_ms: u16 },
}

pub struct C15;

const HEAVY: &[u8] = b"QQQQRRBNqqqqrrbnQq";

/// Messages that mean an unchecked fast path left its bounds
fn is_bounds_panic(msg: &str) -> bool {
    let m = msg.to_ascii_lowercase();
    m.contains("unsafe precondition")
        || m.contains("arrayvec")
        || m.contains("capacityerror")
        || m.contains("capacity")
        || m.contains("index out of bounds")
        || m.contains("out of range")
        || m.contains("assertion failed")
        || m.contains("position.rs")
        || m.contains("unwrap_unchecked")
        || m.contains("called `option::unwrap()` on a `none`")
}

fn bounds_fail(what: &str, msg: &str) -> Fail {
    // judge the FIRST panic only (the command thread panics afterwards when it joins the dead search thread)
    let flat = msg.trim().replace('\n', " / ");
    let first = match flat.match_indices("panicked at").nth(1) {
        Some((i, _)) => flat[..i].to_string(),
        None => flat.clone(),
    };
    let msg = first.as_str();
    // checked indexing in the search or the UCI layer is not an unchecked fast path: C08 / C14 report those
    let elsewhere = msg.contains("search.rs") || msg.contains("uci.rs");
    if is_bounds_panic(msg) && !elsewhere {
        Fail::new("unchecked-fast-path-out-of-bounds", format!("{} : {}", what, msg))
    } else {
        Fail::new("panic", format!("{} : {}", what, msg))
    }
}

const LONG_ROOTS: &[&str] = &[
    "8/8/4k3/8/8/3K4/8/8 w - - 0 1",
    "7k/8/8/8/8/8/8/KB6 w - - 0 1",
    "8/8/8/p1p1p1p1/P1P1P1P1/8/4k3/K7 w - - 0 1",
    "kb6/p1p5/P1P5/8/8/8/8/K7 w - - 0 1",
    "r3k2r/8/8/8/8/8/8/R3K2R w KQkq - 0 1",
    "4k3/pppppppp/8/8/8/8/PPPPPPPP/4K3 w - - 0 1",
];

impl C15 {
    fn exercise_position(&self, fen: &str, via_uci: bool, ev: &mut Ev) -> Result<usize, Fail> {
        self.exercise_position_depth(fen, via_uci, 2, ev)
    }

    /// `depth` 1 for boards full of queens: their capture chains make even depth 2 take minutes
    fn exercise_position_depth(&self, fen: &str, via_uci: bool, depth: u8, ev: &mut Ev) -> Result<usize, Fail> {
        let what = format!("position {}", fen);
        let r = eng::guarded(|| -> Result<(usize, usize), String> {
            let mut g = Game::new(fen).map_err(|e| e.to_string())?;
            let a = eng::moves(&mut g, false).len();
            let b = eng::moves(&mut g, true).len();
            let _ = g.fen();
            let _ = format!("{}", g);
            // searches of boards full of queens are extremely slow (capture chains); an in-process search is
            // only started on boards with few heavy pieces, the others are searched through the checked binary
            let heavy = fen.split(' ').next().unwrap_or("").bytes().filter(|c| b"QRqr".contains(c)).count();
            if heavy <= 4 {
                let mut t = srch::new_table();
                let out = srch::run_search(&g, &mut t, Some(depth), 6_000);
                if let Some(p) = out.panicked {
                    return Err(format!("PANIC {}", p));
                }
            }
            Ok((a, b))
        });
        ev.eval();
        let (unchecked, _checked) = match r {
            Err(p) => return Err(bounds_fail(&what, &p)),
            Ok(Err(e)) if e.starts_with("PANIC ") => return Err(bounds_fail(&format!("depth-{} search of {}", depth, fen), &e[6..])),
            Ok(Err(_)) => {
                ev.skip("position not accepted by the FEN reader");
                return Ok(0);
            }
            Ok(Ok(x)) => x,
        };
        if via_uci {
            let mut s = Session::start_bin(uci::ENGINE_CHECKED, &[], &[]).map_err(|e| Fail::new("harness", e))?;
            s.send(&format!("position fen {}", fen));
            s.send(&format!("go depth {}", depth));
            let mut got = s.read_until(|l| l.starts_with("bestmove"), 6_000);
            if got.is_none() && s.alive() && s.panicked().is_none() {
                // slow, not dead: stop it; a search deep inside a capture chain does not see the stop, then the
                // process is simply killed (the crash symptoms are the exit status and stderr, not the clock)
                s.send("stop");
                got = s.read_until(|l| l.starts_with("bestmove"), 3_000);
                ev.class("checked_binary_searches_cut_short");
                if got.is_none() && s.alive() && s.panicked().is_none() {
                    s.kill();
                    return Ok(unchecked);
                }
            }
            s.send("isready");
            let ready = s.read_until(|l| uci::readyok(l), 10_000);
            ev.class("checked_binary_sessions");
            if got.is_none() || ready.is_none() {
                let pan = s.stderr_text();
                let code = s.wait_exit(500);
                s.kill();
                if code.is_some() || !pan.is_empty() {
                    return Err(bounds_fail(&format!("checked binary on {} (exit {:?})", fen, code), &pan));
                }
                ev.inconclusive("checked binary did not answer within the time limit, no crash observed");
                return Ok(unchecked);
            }
            match s.quit_within(3_000) {
                Some(0) => {}
                other => {
                    let pan = s.stderr_text();
                    s.kill();
                    return Err(bounds_fail(&format!("checked binary on {} (exit {:?})", fen, other), &pan));
                }
            }
        }
        Ok(unchecked)
    }

    fn mobility(&self, men: &[(u8, u8)], wk: u8, bk: u8, white: bool, steps: &[(u8, u8)], ev: &mut Ev) -> Result<(), Fail> {
        let mut b = [b'.'; 64];
        b[(wk % 64) as usize] = b'K';
        if b[(bk % 64) as usize] != b'.' {
            ev.skip("kings on one square");
            return Ok(());
        }
        b[(bk % 64) as usize] = b'k';
        for &(pi, s) in men {
            let s = (s % 64) as usize;
            if b[s] == b'.' {
                b[s] = HEAVY[pi as usize % HEAVY.len()];
            }
        }
        let mut p = Pos { b, white, cr: [false; 4], ep: None };
        // greedy: toggle a square to a heavy piece of the side to move / empty when the model's count rises.
        // The engine is only called afterwards, so the search for the case never executes out-of-bounds code itself.
        let mut best = p.pseudo().len();
        for &(pi, s) in steps {
            let s = (s % 64) as usize;
            if p.b[s].to_ascii_lowercase() == b'k' {
                continue;
            }
            let old = p.b[s];
            let new = if old == b'.' { if white { b"QQQR"[pi as usize % 4] } else { b"qqqr"[pi as usize % 4] } } else { b'.' };
            p.b[s] = new;
            let c = p.pseudo().len();
            if c >= best {
                best = c;
            } else {
                p.b[s] = old;
            }
        }
        let fen = p.fen6();
        ev.class(match best {
            0..=99 => "mobility_below_100",
            100..=199 => "mobility_100_199",
            200..=255 => "mobility_200_255",
            _ => "mobility_above_256_model_count",
        });
        let via_uci = best >= 200;
        let n = self.exercise_position_depth(&fen, via_uci, if best >= 120 { 1 } else { 2 }, ev).map_err(|f| f.with_case(serde_json::to_value(BoundsCase::Fen { fen: fen.clone(), via_uci }).unwrap()))?;
        if best >= 200 {
            ev.nontrivial(fp_pos(&p), || json!({"position": fen, "pseudo_legal_moves_in_model": best, "moves_in_engine_buffer": n}));
        }
        Ok(())
    }

    fn long_game(&self, root: u8, plies: u16, picks: &[u16], via_uci: bool, infinite_ms: u16, ev: &mut Ev) -> Result<(), Fail> {
        let start = Pos::from_fen(LONG_ROOTS[root as usize % LONG_ROOTS.len()]).unwrap();
        let target = (plies as usize).clamp(300, 398);
        // quiet shuffles only (no captures, no pawn moves) so that the game really gets this long
        let mut p = start.clone();
        let mut moves: Vec<RMove> = Vec::new();
        let mut i = 0;
        while moves.len() < target {
            let legal = p.legal();
            let quiet: Vec<RMove> = legal.iter().copied().filter(|&m| !p.is_capture(m) && p.b[m.from as usize].to_ascii_lowercase() != b'p' && m.promo == 0).collect();
            let cand = if quiet.is_empty() { legal.clone() } else { quiet };
            if cand.is_empty() {
                break;
            }
            let pk = if picks.is_empty() { 0 } else { picks[i % picks.len()] };
            i += 1;
            let m = cand[(pk as usize * cand.len()) >> 16];
            moves.push(m);
            p = p.make(m);
        }
        if p.legal().is_empty() {
            moves.pop();
        }
        let n = moves.len();
        let text = moves_text(&moves);
        let what = format!("game of {} plies from {}", n, start.fen4());
        ev.eval();
        ev.class(if n >= 380 { "long_games_380_398_plies" } else { "long_games_shorter" });
        if !via_uci {
            let r = eng::guarded(|| -> Result<(), String> {
                let mut g = Game::new(&start.fen6()).map_err(|e| e.to_string())?;
                for m in &moves {
                    let em = eng::find_legal(&mut g, &m.uci()).ok_or_else(|| format!("legal move {} not offered", m.uci()))?;
                    g.push_history(em);
                }
                let mut t = srch::new_table();
                let o = srch::run_search(&g, &mut t, Some(4), 20_000);
                if let Some(pn) = o.panicked {
                    return Err(format!("PANIC depth-4 search: {}", pn));
                }
                // `go depth 0` is accepted by the interface too
                let mut t0 = srch::new_table();
                let o = srch::run_search(&g, &mut t0, Some(0), 20_000);
                if let Some(pn) = o.panicked {
                    return Err(format!("PANIC depth-0 search: {}", pn));
                }
                let o = srch::run_search(&g, &mut t, None, infinite_ms.clamp(200, 1500) as u64);
                if let Some(ref pn) = o.panicked {
                    return Err(format!("PANIC unlimited search (deepest {:?}): {}", o.depths().last(), pn));
                }
                Ok(())
            });
            match r {
                Err(p) => return Err(bounds_fail(&what, &p)),
                Ok(Err(e)) if e.starts_with("PANIC ") => return Err(bounds_fail(&what, &e[6..])),
                Ok(Err(e)) => return Err(Fail::new("harness", format!("{} : {}", what, e))),
                Ok(Ok(())) => {}
            }
        } else {
            let mut s = Session::start_bin(uci::ENGINE_CHECKED, &[], &[]).map_err(|e| Fail::new("harness", e))?;
            ev.class("checked_binary_sessions");
            // the interface's own limit: a game of 399 plies or more must be refused, not played
            if n >= 398 {
                let extra = p.legal().first().map(|m| m.uci()).unwrap_or_default();
                s.send(&format!("position fen {} moves {} {}", start.fen6(), text, extra));
                s.send("isready");
                match s.read_until(|l| uci::readyok(l), 10_000) {
                    Some(ls) => {
                        if !ls.iter().any(|l| l.starts_with("error:")) {
                            s.kill();
                            return Err(Fail::new("game-length-limit-not-enforced", format!("{} + one more move was accepted by `position`", what)));
                        }
                        ev.class("length_limit_refusals_seen");
                    }
                    None => {
                        let pan = s.stderr_text();
                        s.kill();
                        return Err(bounds_fail(&format!("{} + one more move", what), &pan));
                    }
                }
            }
            s.send(&format!("position fen {} moves {}", start.fen6(), text));
            s.send("go depth 0");
            let a0 = s.read_until(|l| l.starts_with("bestmove"), 20_000);
            s.send("wait");
            s.send(&format!("position fen {} moves {}", start.fen6(), text));
            s.send("go depth 3");
            let a = if a0.is_some() { s.read_until(|l| l.starts_with("bestmove"), 20_000) } else { None };
            s.send("wait");
            s.send(&format!("position fen {} moves {}", start.fen6(), text));
            s.send("go infinite");
            let drained = s.drain(infinite_ms.clamp(200, 2500) as u64);
            s.send("isready");
            let rdy = s.read_until(|l| uci::readyok(l), 10_000);
            // the search may have ended by itself (depth ceiling, mate seen)
            let ended = drained.iter().chain(rdy.iter().flatten()).any(|l| l.starts_with("bestmove"));
            let b = if ended {
                Some(Vec::new())
            } else {
                s.send("stop");
                s.read_until(|l| l.starts_with("bestmove"), 10_000)
            };
            if a.is_none() || rdy.is_none() || b.is_none() {
                let pan = s.stderr_text();
                let code = s.wait_exit(500);
                s.kill();
                if code.is_some() || !pan.is_empty() {
                    return Err(bounds_fail(&format!("{} then searches on the checked binary (exit {:?})", what, code), &pan));
                }
                ev.inconclusive("checked binary did not answer within the time limit, no crash observed");
                return Ok(());
            }
            match s.quit_within(3_000) {
                Some(0) => {}
                other => {
                    let pan = s.stderr_text();
                    s.kill();
                    return Err(bounds_fail(&format!("{} (exit {:?})", what, other), &pan));
                }
            }
        }
        if n >= 380 {
            ev.nontrivial(fp_bytes(format!("{}{}", start.fen4(), text).as_bytes()), || json!({"start": start.fen4(), "plies": n, "via_binary": via_uci, "first_moves": moves_text(&moves[..8.min(n)])}));
        }
        Ok(())
    }

    fn self_play(&self, fen: &str, ev: &mut Ev) -> Result<(), Fail> {
        let env = vec![("VERIF_AUTO_FEN".to_string(), fen.to_string())];
        let mut s = Session::start_bin(uci::ENGINE_CHECKED, &["auto", "2"], &env).map_err(|e| Fail::new("harness", e))?;
        s.close_stdin();
        ev.eval();
        ev.class("self_play_runs");
        // count printed positions until the process ends by itself
        let t0 = std::time::Instant::now();
        let mut positions = 0u32;
        let mut too_long_msg = false;
        loop {
            match s.next_line(std::time::Duration::from_millis(500)) {
                Some((_, l)) => {
                    if l.starts_with("Fen: ") {
                        positions += 1;
                    }
                    if l.contains("too long") {
                        too_long_msg = true;
                    }
                }
                None => {
                    if s.eof {
                        break;
                    }
                }
            }
            if t0.elapsed().as_secs() > 120 {
                s.kill();
                ev.inconclusive("self-play still running after 120 s");
                return Ok(());
            }
        }
        let code = s.wait_exit(5_000);
        let pan = s.stderr_text();
        if code != Some(0) || pan.contains("panicked") {
            return Err(bounds_fail(&format!("self-play from {} ended after {} positions with exit status {:?}", fen, positions, code), &pan));
        }
        if positions > 520 {
            return Err(Fail::new("unchecked-fast-path-out-of-bounds", format!("self-play from {} printed {} positions: the 512-entry state stack has been overrun", fen, positions)));
        }
        if positions >= 380 || too_long_msg {
            ev.class("self_play_reached_the_length_guard");
            ev.nontrivial(fp_bytes(fen.as_bytes()), || json!({"self_play_from": fen, "positions_printed": positions, "ended_with_length_guard": too_long_msg}));
        }
        Ok(())
    }
}

impl Prop for C15 {
    type Case = BoundsCase;

    fn id(&self) -> &'static str {
        "C15"
    }

    fn rule(&self) -> String {
        "All cases run on a CHECKED build of the same sources (release optimisation, debug assertions on, overflow checks off) of both the in-process harness and the binary, so a violated unsafe precondition, an arrayvec capacity assertion, a Position assertion or an index error is a panic/abort instead of silent corruption. Cases: (a) high-mobility boards: generated heavy pieces of both colours, then up to 300 greedy steps that raise the MODEL's pseudo-legal move count (the engine runs only on the result): import, both move lists, FEN/display, depth-2 search, and for counts >= 230 the same through the checked binary; (b) games of 300-398 quiet plies from small positions, followed by depth-4, depth-0 and unlimited searches in-process or `go depth 0`, `go depth 3` and `go infinite` through the checked binary, where a 399th ply must be refused by `position`; (c) self-play `rustybait auto 2` from drawn endings (hook: VERIF_AUTO_FEN) until the process ends by itself; (d) sane constructed positions with promoted pieces searched to depth 3-4; (e) 'wild' boards: anything the FEN reader accepts - all piece kinds anywhere including pawns on the first and eighth rank, arbitrary castling-rights bits and en-passant file - imported, listed, displayed and searched to depth 2. A shard that aborts is the violation (in-flight case = replay). evaluations = exercised positions / games / runs. Non-trivial: model move count >= 200, or game length >= 380, or self-play that reached the length guard, or a wild board with pawns on rank 1/8 or rights without their rook; distinct by position / game.".into()
    }

    fn assumptions(&self) -> Vec<String> {
        vec![
            "the checked build turns unsafe-precondition violations into aborts and debug_assert! into panics; what neither checks (e.g. a wrong but in-range index) is not a bounds violation".into(),
            "overflow checks stay off: i16 score wrap-around is not a bounds property".into(),
        ]
    }

    fn nshards(&self, _tier: Tier) -> u32 {
        12
    }

    fn cases(&self, tier: Tier) -> u32 {
        tier.pick(1_800, 40_000)
    }

    fn shard_timeout_s(&self, tier: Tier) -> u64 {
        tier.pick(1200, 9000)
    }

    fn always_inflight(&self) -> bool {
        true
    }

    fn strategy(&self, _ctx: &Ctx) -> BoxedStrategy<BoundsCase> {
        prop_oneof![
            10 => (vec((any::<u8>(), 0u8..64), 4..30), 0u8..64, 0u8..64, any::<bool>(), vec((any::<u8>(), 0u8..64), 0..300))
                .prop_map(|(men, wk, bk, white, steps)| BoundsCase::Mobility { men, wk, bk, white, steps }),
            2 => (0u8..6, prop_oneof![1 => 300u16..380, 4 => 380u16..399], vec(any::<u16>(), 1..40), prop::bool::weighted(0.3), 200u16..1500)
                .prop_map(|(root, plies, picks, via_uci, infinite_ms)| BoundsCase::LongGame { root, plies, picks, via_uci, infinite_ms }),
            6 => (construct_strategy(), 3u8..5).prop_map(|(construct, depth)| BoundsCase::Promoted { construct, depth }),
            8 => (vec((any::<u8>(), 0u8..64), 0..24), 0u8..64, 0u8..64, any::<bool>(), 0u8..16, 0u8..12, prop::bool::weighted(0.1))
                .prop_map(|(men, wk, bk, white, cr, ep, via_uci)| BoundsCase::Wild { men, wk, bk, white, cr, ep, via_uci }),
        ]
        .boxed()
    }

    fn check(&self, _ctx: &Ctx, case: &BoundsCase, ev: &mut Ev) -> Result<(), Fail> {
        match case {
            BoundsCase::Mobility { men, wk, bk, white, steps } => self.mobility(men, *wk, *bk, *white, steps, ev),
            BoundsCase::Fen { fen, via_uci } => self.exercise_position(fen, *via_uci, ev).map(|_| ()),
            BoundsCase::LongGame { root, plies, picks, via_uci, infinite_ms } => self.long_game(*root, *plies, picks, *via_uci, *infinite_ms, ev),
            BoundsCase::SelfPlay { fen } => self.self_play(fen, ev),
            BoundsCase::Wild { men, wk, bk, white, cr, ep, via_uci } => {
                let mut b = [b'.'; 64];
                b[(*wk % 64) as usize] = b'K';
                if b[(*bk % 64) as usize] != b'.' {
                    ev.skip("kings on one square");
                    return Ok(());
                }
                b[(*bk % 64) as usize] = b'k';
                for &(pi, sq) in men {
                    let s = (sq % 64) as usize;
                    if b[s] == b'.' {
                        b[s] = b"PpPpNnBbRrQqPp"[pi as usize % 14];
                    }
                }
                let p = Pos { b, white: *white, cr: [cr & 1 != 0, cr & 2 != 0, cr & 4 != 0, cr & 8 != 0], ep: if *ep < 8 { Some(*ep) } else { None } };
                let fen = p.fen6();
                let edge_pawns = (0..8).filter(|f| b[*f].to_ascii_lowercase() == b'p' || b[56 + f].to_ascii_lowercase() == b'p').count();
                ev.class("wild_boards");
                if edge_pawns > 0 {
                    ev.class("wild_boards_with_pawns_on_first_or_eighth_rank");
                }
                self.exercise_position_depth(&fen, *via_uci, 2, ev).map_err(|f| f.with_case(serde_json::to_value(BoundsCase::Fen { fen: fen.clone(), via_uci: *via_uci }).unwrap()))?;
                if edge_pawns > 0 || (p.cr.iter().any(|&x| x) && !p.sane()) {
                    ev.nontrivial(fp_pos(&p), || json!({"position": fen, "pawns_on_first_or_eighth_rank": edge_pawns}));
                }
                Ok(())
            }
            BoundsCase::Script { lines, run_ms } => {
                let mut s = Session::start_bin(uci::ENGINE_CHECKED, &[], &[]).map_err(|e| Fail::new("harness", e))?;
                ev.eval();
                ev.class("checked_binary_sessions");
                for l in lines {
                    s.send(l);
                }
                let drained = s.drain(*run_ms as u64);
                s.send("isready");
                let rdy = s.read_until(|l| uci::readyok(l), 10_000);
                let ended = drained.iter().chain(rdy.iter().flatten()).any(|l| l.starts_with("bestmove"));
                if !ended && rdy.is_some() {
                    s.send("stop");
                    let _ = s.read_until(|l| l.starts_with("bestmove"), 10_000);
                }
                let what = format!("script {:?}", lines.iter().map(|l| l.chars().take(60).collect::<String>()).collect::<Vec<_>>());
                match s.quit_within(5_000) {
                    Some(0) if s.panicked().is_none() => Ok(()),
                    other => {
                        let pan = s.stderr_text();
                        s.kill();
                        if pan.is_empty() && other.is_none() {
                            ev.inconclusive("checked binary did not exit within the time limit, no crash observed");
                            return Ok(());
                        }
                        Err(bounds_fail(&format!("{} (exit {:?})", what, other), &pan))
                    }
                }
            }
            BoundsCase::Promoted { construct, depth } => {
                let Some(p) = construct.build() else {
                    ev.skip("construction did not yield a sane position");
                    return Ok(());
                };
                let promoted = p.b.iter().filter(|c| b"QRqr".contains(c)).count();
                let fen = p.fen6();
                if promoted > 4 {
                    ev.class("positions_with_5_or_more_heavy_pieces_searched_through_the_binary");
                    return self.exercise_position_depth(&fen, true, (*depth).min(2), ev).map(|_| ());
                }
                let r = eng::guarded(|| {
                    let g = Game::new(&fen).map_err(|e| e.to_string())?;
                    let mut t = srch::new_table();
                    let o = srch::run_search(&g, &mut t, Some(*depth), 8_000);
                    match o.panicked {
                        Some(pn) => Err(format!("PANIC {}", pn)),
                        None => Ok(()),
                    }
                });
                ev.eval();
                ev.class("constructed_positions_searched");
                match r {
                    Err(pn) => return Err(bounds_fail(&format!("search of {}", fen), &pn)),
                    Ok(Err(e)) if e.starts_with("PANIC ") => return Err(bounds_fail(&format!("search of {} to depth {}", fen, depth), &e[6..])),
                    Ok(Err(e)) => return Err(Fail::new("sane-position-not-importable", e)),
                    Ok(Ok(())) => {}
                }
                if promoted >= 6 {
                    ev.class("positions_with_6_or_more_heavy_pieces");
                }
                Ok(())
            }
        }
    }

    fn enumerate(&self, ctx: &Ctx, ev: &mut Ev, report: &mut dyn FnMut(BoundsCase, Fail)) {
        let mut cases: Vec<BoundsCase> = vec![
            BoundsCase::Fen { fen: "Q1QQQQQk/Q2Q3Q/Q6Q/Q3Q3/1Q5Q/Q6Q/Q6Q/K1QQQQQQ w - - 0 1".into(), via_uci: true },
            BoundsCase::Fen { fen: "R6R/3Q4/1Q4Q1/4Q3/2Q4Q/Q4Q2/pp1Q4/kBNN1KB1 w - - 0 1".into(), via_uci: true },
            BoundsCase::LongGame { root: 0, plies: 398, picks: vec![0, 40000, 20000, 60000], via_uci: true, infinite_ms: 2500 },
            BoundsCase::LongGame { root: 0, plies: 396, picks: vec![0], via_uci: false, infinite_ms: 1500 },
            BoundsCase::LongGame { root: 3, plies: 398, picks: vec![0, 65535], via_uci: true, infinite_ms: 2000 },
        ];
        for f in ["8/8/4k3/8/8/3K4/8/8 w - - 0 1", "7k/8/8/8/8/8/8/KB6 w - - 0 1", "8/8/8/p1p1p1p1/P1P1P1P1/8/4k3/K7 w - - 0 1"] {
            cases.push(BoundsCase::SelfPlay { fen: f.to_string() });
        }
        // a single `position` command carrying far more plies than the state stack holds: it must be refused, whole
        for plies in [404usize, 512, 520, 700, 1400] {
            let mut line = String::from("position startpos moves");
            for k in 0..plies {
                line.push(' ');
                line.push_str(["g1f3", "g8f6", "f3g1", "f6g8"][k % 4]);
            }
            cases.push(BoundsCase::Script { lines: vec![line, "isready".into(), "show".into(), "isready".into()], run_ms: 300 });
        }
        // fortresses in which both sides have a single legal move for ever: self-play can only end at the length guard
        for f in crate::props::c08::LOCKED {
            cases.push(BoundsCase::SelfPlay { fen: f.to_string() });
        }
        // a root searched as deep as it goes (bare kings, a locked fortress: the depth ceiling is reached in a fraction
        // of a second), then the same root at the end of a 396-ply record of shuffles - where far less depth fits
        // under the per-ply state stack than the table remembers - searched again in three ways
        for f in ["8/8/4k3/8/8/3K4/8/8 w - - 0 1", "4k3/8/8/8/1p1p1p1p/pPpPpPpP/P1P1P1P1/4K3 w - - 0 1", "7k/8/8/8/8/8/8/KB6 w - - 0 1"] {
            let Ok(p) = Pos::from_fen(f) else { continue };
            let Some(cycle) = shuffle_cycles(&p).into_iter().next() else { continue };
            let mut record: Vec<String> = Vec::new();
            while record.len() + 4 <= 396 {
                record.extend(cycle.iter().map(|m| m.uci()));
            }
            for second in ["go wtime 60000 btime 60000 winc 0 binc 0", "go depth 250", "go infinite"] {
                cases.push(BoundsCase::Script {
                    lines: vec![format!("position fen {}", f), "go depth 255".into(), "wait".into(), format!("position fen {} moves {}", f, record.join(" ")), second.into()],
                    run_ms: 2500,
                });
            }
        }
        for (i, case) in cases.into_iter().enumerate() {
            if !ctx.owns(i as u64) {
                continue;
            }
            ctx.note_inflight("C15", &case);
            if let Err(f) = self.check(ctx, &case, ev) {
                report(case, f);
                return;
            }
        }
    }
}
