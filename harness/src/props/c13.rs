//! C13: thinking time never exceeds the time available.

use crate::ev::*;
use crate::gen::*;
use crate::runner::{Ctx, Prop};
use crate::uci::Session;
use proptest::prelude::*;
use serde::{Deserialize, Serialize};
use serde_json::json;
use std::time::Instant;

#[derive(Serialize, Deserialize, Clone, Debug)]
pub enum ClockCase {
    /// `omit`: bit0 leaves out `winc` when it is 0, bit1 leaves out `binc` when it is 0 (GUIs such as cutechess
    /// send the increment fields only when there is an increment)
    Clock {
        wtime: u64,
        btime: u64,
        winc: u64,
        binc: u64,
        black: bool,
        order: u8,
        #[serde(default)]
        omit: u8,
        /// 0 nothing; otherwise a `movestogo` field (moves to the next time control, sent by GUIs in "x moves in y
        /// minutes" games): bit0/1 choose the place (end / front / after the first field), the rest the number
        #[serde(default)]
        movestogo: u8,
    },
    MoveTime { movetime: u64, black: bool },
    /// a fixed move time together with the clock fields (some GUIs send both): the fixed time governs.
    /// `movetime` is kept at or below the mover's clock so that both readings of the statement agree;
    /// `place` = position of the movetime field among the others, `extra` adds `movestogo` / `depth` fields
    Both { wtime: u64, btime: u64, winc: u64, binc: u64, movetime: u64, black: bool, place: u8, extra: u8 },
    /// any of the above with one unimplemented standard field (`ponder`, `searchmoves …`, `nodes`, `mate`) put in
    /// front of or behind the rest
    With { inner: Box<ClockCase>, extra: u8 },
}

pub struct C13;

/// Standard `go` fields this engine does not implement; a GUI may still send them (analysis with `searchmoves`,
/// `nodes` / `mate` limits, `ponder`), before or after the time fields. They must not disturb the time fields.
fn decorate(cmd: &str, extra: u8) -> String {
    let rest = cmd.strip_prefix("go ").unwrap_or(cmd);
    let unit = match extra % 8 {
        1 => "ponder".to_string(),
        2 => "searchmoves e2e4".to_string(),
        3 => "searchmoves e2e4 d2d4".to_string(),
        4 => "searchmoves g1f3 c2c4 e2e4".to_string(),
        5 => "searchmoves e7e5 c7c5 g8f6 e7e6".to_string(),
        6 => "nodes 100000000".to_string(),
        7 => "mate 12".to_string(),
        _ => return cmd.to_string(),
    };
    if (extra / 8) % 2 == 0 {
        format!("go {} {}", unit, rest)
    } else {
        format!("go {} {}", rest, unit)
    }
}

fn clock_value() -> impl Strategy<Value = u64> {
    prop_oneof![
        3 => prop::sample::select(vec![0u64, 1, 4, 5, 6, 100, 149, 150, 151, 154, 155, 156, 160, 1000, 7249, 7250, 7499, 7500, 7501, 7750, 7751, 8000]),
        // log-uniform over 0..10^7
        6 => (0u32..24, 0u64..1024).prop_map(|(e, m)| ((1u64 << e) + (m << e) / 1024).min(10_000_000)),
        1 => 0u64..400,
    ]
}

fn inc_value() -> impl Strategy<Value = u64> {
    prop_oneof![3 => Just(0u64), 2 => 0u64..200, 2 => clock_value(), 1 => 0u64..100_000]
}

/// What the statement allows: non-negative, finite, no larger than the mover's remaining time
/// (resp. the fixed move time).
impl C13 {
    fn run(&self, case: &ClockCase, ev: &mut Ev) -> Result<(), Fail> {
        let (case, decoration) = match case {
            ClockCase::With { inner, extra } => (&**inner, *extra),
            other => (other, 0),
        };
        let (cmd, limit, black, nontrivial) = match case {
            ClockCase::With { .. } => return Err(Fail::new("harness", "nested decoration".into())),
            ClockCase::Clock { wtime, btime, winc, binc, black, order, omit, movestogo } => {
                let parts = [format!("wtime {}", wtime), format!("btime {}", btime), format!("winc {}", winc), format!("binc {}", binc)];
                // the four fields in one of a few orders GUIs use
                let idx: [usize; 4] = match order % 4 {
                    0 => [0, 1, 2, 3],
                    1 => [0, 2, 1, 3],
                    2 => [1, 0, 3, 2],
                    _ => [3, 2, 1, 0],
                };
                let mut fields: Vec<&str> = Vec::new();
                for i in idx {
                    let left_out = (i == 2 && *winc == 0 && omit & 1 != 0) || (i == 3 && *binc == 0 && omit & 2 != 0);
                    if left_out {
                        ev.class("zero_increment_field_left_out");
                    } else {
                        fields.push(&parts[i]);
                    }
                }
                let mtg = format!("movestogo {}", [1u32, 2, 5, 10, 25, 40, 80][(*movestogo as usize / 4) % 7]);
                if *movestogo != 0 {
                    ev.class("clock_with_movestogo");
                    match movestogo % 4 {
                        1 => fields.push(&mtg),
                        2 => fields.insert(0, &mtg),
                        _ => fields.insert(1.min(fields.len()), &mtg),
                    }
                }
                let cmd = format!("go {}", fields.join(" "));
                let (own, inc) = if *black { (*btime, *binc) } else { (*wtime, *winc) };
                let share = (own as f64 * 0.02) as u64;
                if *movestogo == 0 && own > 7500 && inc < own && inc + own / 50 > own + 150 {
                    ev.class("increment_below_the_clock_budget_formula_above_it");
                }
                (cmd, own, *black, share + inc < 155 || inc > own)
            }
            ClockCase::MoveTime { movetime, black } => (format!("go movetime {}", movetime), *movetime, *black, *movetime < 5),
            ClockCase::Both { wtime, btime, winc, binc, movetime, black, place, extra } => {
                let own = if *black { *btime } else { *wtime };
                let mt = (*movetime).min(own);
                let mut parts = vec![format!("wtime {}", wtime), format!("btime {}", btime), format!("winc {}", winc), format!("binc {}", binc)];
                parts.insert(*place as usize % 5, format!("movetime {}", mt));
                match extra % 4 {
                    1 => parts.push("movestogo 40".to_string()),
                    2 => parts.insert(0, "movestogo 1".to_string()),
                    3 => parts.push("depth 60".to_string()),
                    _ => {}
                }
                ev.class("movetime_together_with_clock_fields");
                (format!("go {}", parts.join(" ")), mt, *black, true)
            }
        };
        let cmd = if decoration % 8 != 0 {
            ev.class("with_an_unimplemented_standard_field");
            decorate(&cmd, decoration)
        } else {
            cmd
        };
        let mut s = Session::start(&[]).map_err(|e| Fail::new("harness", e))?;
        s.send(if black { "position startpos moves e2e4" } else { "position startpos" });
        let t_go = Instant::now();
        s.send(&cmd);
        ev.eval();
        // `info time N` is printed before the search starts
        let mut budget: Option<u128> = None;
        let mut t_info = None;
        let mut t_best = None;
        let got = s.read_until_timed(
            &mut |l| {
                if let Some(n) = l.strip_prefix("info time ") {
                    budget = n.trim().parse::<u128>().ok();
                    return true;
                }
                l.starts_with("bestmove") || l.starts_with("error")
            },
            5_000,
        );
        match &got {
            Some(v) => t_info = v.last().map(|x| x.0),
            None => {}
        }
        let Some(n) = budget else {
            let tail = s.transcript_tail(6);
            s.kill();
            return Err(Fail::new("no-thinking-time-announced", format!("{:?} ({} to move): no `info time` line ({})", cmd, if black { "Black" } else { "White" }, tail)));
        };
        if n > limit as u128 {
            s.kill();
            return Err(Fail::new(
                "allotted-time-exceeds-time-available",
                format!("{:?} ({} to move): engine allots itself {} ms, only {} ms are available", cmd, if black { "Black" } else { "White" }, n, limit),
            ));
        }
        ev.class(if nontrivial { "low_clock_or_boundary_cases" } else { "ordinary_cases" });
        if n <= 400 {
            // short budgets are run to completion: the move must be announced within the budget + grace
            let got = s.read_until_timed(&mut |l| l.starts_with("bestmove"), 400 + 5_000);
            if let Some(v) = &got {
                t_best = v.last().map(|x| x.0);
            }
            match (t_info, t_best) {
                (Some(ti), Some(tb)) => {
                    let over = tb.duration_since(ti).as_millis() as i128 - n as i128;
                    ev.class("short_budgets_run_to_completion");
                    if over > 2_000 {
                        ev.inconclusive("bestmove between 2 and 5 s after the allotted time");
                    }
                }
                _ => {
                    let alive = s.alive();
                    let pan = s.panicked();
                    s.kill();
                    return Err(Fail::new(
                        "move-not-announced-within-the-allotted-time",
                        format!("{:?}: allotted {} ms, no bestmove {} ms after `go` (process alive: {}, stderr: {:?})", cmd, n, t_go.elapsed().as_millis(), alive, pan),
                    ));
                }
            }
        } else {
            // long budgets are not waited for; responsiveness to isready / stop / quit is C14's business
            ev.class("long_budgets_allotment_only");
        }
        if nontrivial {
            ev.nontrivial(fp_bytes(format!("{}{}", cmd, black).as_bytes()), || json!({"command": cmd, "side_to_move": if black { "black" } else { "white" }, "time_available_ms": limit, "allotted_ms": n as u64}));
        }
        s.kill();
        Ok(())
    }
}

impl Prop for C13 {
    type Case = ClockCase;

    fn id(&self) -> &'static str {
        "C13"
    }

    fn rule(&self) -> String {
        "Cases: `go wtime W btime B winc X binc Y` (four field orders; one time in three an increment field whose value is 0 is left out, as GUIs that send increments only when there are any do; one time in three with a `movestogo N` field, N from 1 to 80, at the end, the front or after the first field) with W, B log-uniform over 0..10^7 plus boundary values around 150/155 ms and the 7.5 s clock, increments 0 / small / clock-like / up to 10^5 / within 0-400 ms (or 0-3200 ms) below or above the mover's own clock, either side to move; `go movetime T`, T in 0..2000 with boundary values; and (one case in five; one in sixteen with the move time within 400 ms below the mover's own clock) a fixed move time together with the four clock fields, in any of five places among them and optionally with `movestogo` / `depth` fields, T kept at or below the mover's clock so that the limit is T under either reading of the statement. One command in four additionally carries a standard field this engine does not implement (`ponder`, `searchmoves` with 1-4 moves, `nodes N`, `mate N`) in front of or behind the rest. Through the real binary: the `info time N` line must exist and N must not exceed the mover's remaining time (resp. T), hence be finite and non-negative; allotments up to 400 ms are run to completion and `bestmove` must arrive (later than N + 5 s = violation, between 2 and 5 s = inconclusive); for longer ones only the allotted figure is judged (isready / stop / quit behaviour belongs to C14). evaluations = go commands judged. Non-trivial: 2 % of the clock plus increment below 155 ms, or increment above the clock, or movetime below 5; distinct by command and side.".into()
    }

    fn assumptions(&self) -> Vec<String> {
        vec![
            "only the allotted figure is decided exactly; wall-clock promptness is sampled with a generous grace".into(),
            "8 shards at most, so that timing is not disturbed by the harness itself".into(),
        ]
    }

    fn nshards(&self, _tier: Tier) -> u32 {
        8
    }

    fn cases(&self, tier: Tier) -> u32 {
        tier.pick(640, 30_000)
    }

    fn confirm_in_fresh_process(&self) -> bool {
        true
    }

    fn always_inflight(&self) -> bool {
        true
    }

    fn strategy(&self, _ctx: &Ctx) -> BoxedStrategy<ClockCase> {
        let plain = prop_oneof![
            // both clocks at the bottom of their range at once
            1 => (prop::sample::select(vec![(0u64, 0u64), (0, 1), (1, 0), (1, 1), (0, 7499), (7499, 0)]), inc_value(), inc_value(), any::<bool>(), 0u8..4, 0u8..4)
                .prop_map(|((wtime, btime), winc, binc, black, order, omit)| ClockCase::Clock { wtime, btime, winc, binc, black, order, omit, movestogo: 0 }),
            6 => (clock_value(), clock_value(), inc_value(), inc_value(), any::<bool>(), 0u8..4, prop_oneof![2 => Just(0u8), 1 => 1u8..4], prop_oneof![2 => Just(0u8), 1 => 1u8..28]).prop_map(|(wtime, btime, winc, binc, black, order, omit, movestogo)| ClockCase::Clock { wtime, btime, winc, binc, black, order, omit, movestogo }),
            // increments within a few hundred milliseconds of the clock they belong to, on either side of it: the
            // band in which "2 % of the clock plus the increment minus 150" crosses the clock itself
            3 => (clock_value(), clock_value(), 0u64..400, 0u64..400, any::<bool>(), any::<bool>(), 0u8..4, any::<bool>(), prop_oneof![3 => Just(0u8), 1 => 1u8..28])
                .prop_map(|(wtime, btime, d1, d2, below, black, order, far, movestogo)| {
                    let d1 = if far { d1 * 8 } else { d1 };
                    let near = |c: u64, d: u64| if below { c.saturating_sub(d) } else { c + d };
                    ClockCase::Clock { wtime, btime, winc: near(wtime, d1), binc: near(btime, if far { d2 * 8 } else { d2 }), black, order, omit: 0, movestogo }
                }),
            // a fixed move time within 400 ms below the mover's own clock, together with the clock fields
            1 => (clock_value(), clock_value(), inc_value(), inc_value(), 0u64..400, any::<bool>(), 0u8..5, 0u8..4)
                .prop_map(|(wtime, btime, winc, binc, d, black, place, extra)| {
                    let own = if black { btime } else { wtime };
                    ClockCase::Both { wtime, btime, winc, binc, movetime: own.saturating_sub(d), black, place, extra }
                }),
            2 => (prop_oneof![2 => prop::sample::select(vec![0u64, 1, 4, 5, 6, 10, 50, 200]), 1 => 0u64..2000], any::<bool>()).prop_map(|(movetime, black)| ClockCase::MoveTime { movetime, black }),
            2 => (clock_value(), clock_value(), inc_value(), inc_value(), prop_oneof![1 => prop::sample::select(vec![0u64, 1, 5, 6, 50, 200]), 1 => 0u64..3000], any::<bool>(), 0u8..5, 0u8..4)
                .prop_map(|(wtime, btime, winc, binc, movetime, black, place, extra)| ClockCase::Both { wtime, btime, winc, binc, movetime, black, place, extra }),
        ];
        (plain, prop_oneof![3 => Just(0u8), 1 => 1u8..16]).prop_map(|(inner, extra)| if extra % 8 == 0 { inner } else { ClockCase::With { inner: Box::new(inner), extra } }).boxed()
    }

    fn check(&self, _ctx: &Ctx, case: &ClockCase, ev: &mut Ev) -> Result<(), Fail> {
        self.run(case, ev)
    }
}
