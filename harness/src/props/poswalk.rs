//! C01, C02, C04, C11: per-position differential oracles evaluated at every position of generated
//! walks, on constructed random positions and (thorough) on exhaustive small endgame tables.

use crate::eng::{self, Game};
use crate::ev::*;
use crate::gen::*;
use crate::refchess::*;
use crate::runner::{Ctx, Prop};
use crate::uci::{self, Session};
use proptest::prelude::*;
use serde::{Deserialize, Serialize};
use serde_json::{json, Value};
use std::cell::RefCell;
use std::collections::{BTreeMap, HashMap};

#[derive(Clone, Copy, PartialEq, Eq, Debug)]
pub enum Which {
    C01,
    C02,
    C04,
    C11,
}

#[derive(Serialize, Deserialize, Clone, Debug)]
pub enum PosCase {
    /// a walk; `history` plays the moves into the game record (push_history) instead of push;
    /// `via_binary` additionally observes the end of the walk through the real executable
    /// (C01: `rustybait perft 2 <fen> <moves>` divide; C02/C04/C11: `position … moves …` + `show`)
    Walk {
        walk: Walk,
        history: bool,
        expand: u8,
        #[serde(default)]
        via_binary: bool,
    },
    /// a single sane position given as text (enumerations, golden tables)
    Fen { fen: String },
    /// golden (FEN, hash) pair
    Golden { fen: String, hash: String },
}

pub struct PosWalk {
    pub which: Which,
    zob: Zob,
    /// fp_pos -> (engine hash, route fingerprint): same position by another route must hash equally
    seen: RefCell<HashMap<u64, (u64, u64)>>,
}

impl PosWalk {
    pub fn new(which: Which) -> PosWalk {
        PosWalk { which, zob: Zob::repo(), seen: RefCell::new(HashMap::new()) }
    }
}

fn fen_regex_ok(fen: &str) -> Result<(), String> {
    let f: Vec<&str> = fen.split(' ').collect();
    if f.len() != 6 {
        return Err(format!("{} fields separated by single spaces, want 6", f.len()));
    }
    let ranks: Vec<&str> = f[0].split('/').collect();
    if ranks.len() != 8 {
        return Err("placement does not have 8 ranks".into());
    }
    for r in ranks {
        let mut w = 0;
        let mut last_digit = false;
        if r.is_empty() {
            return Err("empty rank".into());
        }
        for c in r.chars() {
            if ('1'..='8').contains(&c) {
                if last_digit {
                    return Err("adjacent digits in a rank".into());
                }
                w += c as u32 - '0' as u32;
                last_digit = true;
            } else if "PNBRQKpnbrqk".contains(c) {
                w += 1;
                last_digit = false;
            } else {
                return Err(format!("bad placement character {:?}", c));
            }
        }
        if w != 8 {
            return Err("rank width is not 8".into());
        }
    }
    if f[1] != "w" && f[1] != "b" {
        return Err("side field".into());
    }
    if f[2] != "-" {
        let order = "KQkq";
        let mut last = -1i32;
        if f[2].is_empty() {
            return Err("empty castling field".into());
        }
        for c in f[2].chars() {
            let Some(i) = order.find(c) else { return Err("castling letter".into()) };
            if i as i32 <= last {
                return Err("castling letters out of order or repeated".into());
            }
            last = i as i32;
        }
    }
    if f[3] != "-" {
        let e = f[3].as_bytes();
        if e.len() != 2 || !(b'a'..=b'h').contains(&e[0]) || !(e[1] == b'3' || e[1] == b'6') {
            return Err("en-passant field".into());
        }
        if (f[1] == "w") != (e[1] == b'6') {
            return Err("en-passant rank does not match the side to move".into());
        }
    }
    if f[4].is_empty() || !f[4].bytes().all(|c| c.is_ascii_digit()) {
        return Err("halfmove clock".into());
    }
    if f[5].is_empty() || !f[5].bytes().all(|c| c.is_ascii_digit()) || f[5].parse::<u64>().map(|x| x < 1).unwrap_or(true) {
        return Err("fullmove number".into());
    }
    Ok(())
}

/// Non-triviality features of a position (shared by the four properties)
pub struct Feat {
    pub check: bool,
    pub double_check: bool,
    pub ep: bool,
    pub ep_capture_available: bool,
    pub castling_right: bool,
    pub castling_available: bool,
    pub pawn_on_seventh: bool,
    pub few_men: bool,
    pub pinned_or_self_check_extra: bool,
}

pub fn features(p: &Pos, legal: &[RMove], pseudo_len: usize) -> Feat {
    let check = p.in_check(p.white);
    let double_check = check && p.checkers(p.white) >= 2;
    let seventh = if p.white { 6 } else { 1 };
    let pawn = if p.white { b'P' } else { b'p' };
    Feat {
        check,
        double_check,
        ep: p.ep.is_some(),
        ep_capture_available: legal.iter().any(|m| m.kind == K_EP),
        castling_right: p.cr.iter().any(|&x| x),
        castling_available: legal.iter().any(|m| m.kind == K_OO || m.kind == K_OOO),
        pawn_on_seventh: (0..8).any(|f| p.b[seventh * 8 + f] == pawn),
        few_men: p.men() <= 4,
        pinned_or_self_check_extra: pseudo_len > legal.len(),
    }
}

/// Rare rule corners a position exercises (C01 evidence: shows that the generators reach them).
/// `pseudo` is the reference model's pseudo-legal list (castling already filtered for attacks), `legal` its legal subset.
pub fn corners(p: &Pos, pseudo: &[RMove], legal: &[RMove], ev: &mut Ev) {
    let w = p.white;
    let check = p.in_check(w);
    let is_legal = |m: &RMove| legal.contains(m);
    let lower = |s: u8| p.b[s as usize].to_ascii_lowercase();
    // en passant
    for m in pseudo.iter().filter(|m| m.kind == K_EP) {
        if !is_legal(m) {
            ev.class(if check { "corner_ep_capture_does_not_answer_check" } else { "corner_ep_capture_illegal_by_discovered_attack" });
            if !check && p.king_sq(w).map(|k| k / 8 == m.from / 8).unwrap_or(false) {
                ev.class("corner_ep_capture_illegal_both_pawns_leave_the_kings_rank");
            }
        } else if check {
            ev.class("corner_ep_capture_answers_check");
        }
    }
    // promotions
    let mut promo_illegal = false;
    let mut promo_in_check = false;
    for m in pseudo.iter().filter(|m| m.promo == b'n') {
        if !is_legal(m) {
            promo_illegal = true;
        } else if check {
            promo_in_check = true;
        }
    }
    if promo_illegal {
        ev.class("corner_promotion_pseudo_legal_but_illegal");
    }
    if promo_in_check {
        ev.class(if legal.iter().any(|m| m.promo != 0 && p.is_capture(*m)) { "corner_check_answered_by_capture_promotion" } else { "corner_check_answered_by_promotion" });
    }
    // castling
    let home = if w { 4u8 } else { 60 };
    let rook = if w { b'R' } else { b'r' };
    let (ks, qs) = if w { (p.cr[0], p.cr[1]) } else { (p.cr[2], p.cr[3]) };
    let king_home = p.b[home as usize] == if w { b'K' } else { b'k' };
    if king_home && ks && p.b[(home + 3) as usize] == rook && p.b[(home + 1) as usize] == b'.' && p.b[(home + 2) as usize] == b'.' {
        if !legal.iter().any(|m| m.kind == K_OO) {
            ev.class(if check { "corner_castling_short_refused_in_check" } else { "corner_castling_short_refused_path_attacked" });
        } else if p.attacked(home + 3, !w) {
            ev.class("corner_castling_short_legal_with_rook_attacked");
        }
    }
    if king_home && qs && p.b[(home - 4) as usize] == rook && (1..=3).all(|d| p.b[(home - d) as usize] == b'.') {
        if !legal.iter().any(|m| m.kind == K_OOO) {
            ev.class(if check { "corner_castling_long_refused_in_check" } else { "corner_castling_long_refused_path_attacked" });
        } else {
            if p.attacked(home - 3, !w) {
                ev.class("corner_castling_long_legal_with_b_file_attacked");
            }
            if p.attacked(home - 4, !w) {
                ev.class("corner_castling_long_legal_with_rook_attacked");
            }
        }
    }
    // pins: a piece (not the king) with legal and illegal moves while not in check moves along its pin line
    if !check && pseudo.len() > legal.len() {
        let mut along = false;
        let mut takes_pinner = false;
        let mut frozen = false;
        let mut seen_from = [false; 64];
        for m in pseudo {
            if seen_from[m.from as usize] || lower(m.from) == b'k' || m.kind == K_EP {
                continue;
            }
            seen_from[m.from as usize] = true;
            let mine: Vec<&RMove> = pseudo.iter().filter(|x| x.from == m.from && x.kind != K_EP).collect();
            let ok: Vec<&&RMove> = mine.iter().filter(|x| is_legal(x)).collect();
            if ok.len() < mine.len() {
                if ok.is_empty() {
                    frozen = true;
                } else {
                    along = true;
                    if ok.iter().any(|x| p.is_capture(***x)) {
                        takes_pinner = true;
                    }
                }
            }
        }
        if along {
            ev.class("corner_pinned_piece_moves_along_the_pin_line");
        }
        if takes_pinner {
            ev.class("corner_pinned_piece_captures_its_pinner");
        }
        if frozen {
            ev.class("corner_pinned_piece_without_any_move");
        }
    }
    // king steps that look safe on the current board but stay on the checking slider's ray
    if check {
        for m in pseudo.iter().filter(|m| lower(m.from) == b'k' && m.kind == K_NORMAL) {
            if !is_legal(m) && !p.attacked(m.to, !w) {
                ev.class("corner_king_retreat_along_the_checking_ray");
                break;
            }
        }
        if p.checkers(w) >= 2 && !legal.is_empty() {
            ev.class("corner_double_check_with_escape");
        }
        if legal.iter().any(|m| lower(m.from) != b'k' && !p.is_capture(*m) && m.kind != K_EP) {
            ev.class("corner_check_answered_by_interposition");
        }
    }
    // king captures a defended / undefended piece
    if pseudo.iter().any(|m| lower(m.from) == b'k' && p.is_capture(*m) && !is_legal(m)) {
        ev.class("corner_king_may_not_capture_defended_piece");
    }
    if legal.len() == 1 {
        ev.class("corner_single_legal_move");
    }
}

impl PosWalk {
    fn id_str(&self) -> &'static str {
        match self.which {
            Which::C01 => "C01",
            Which::C02 => "C02",
            Which::C04 => "C04",
            Which::C11 => "C11",
        }
    }

    /// The per-position oracle of this property. `g` is the engine game believed to be at `p`.
    fn at_position(&self, p: &Pos, g: &mut Game, ev: &mut Ev, route: u64, ctxs: &dyn Fn() -> Value) -> Result<(), Fail> {
        let pseudo = p.pseudo();
        if pseudo.len() > 250 {
            ev.skip("more than 250 pseudo-legal moves (move-buffer capacity is C15's business)");
            return Ok(());
        }
        let legal: Vec<RMove> = pseudo.iter().copied().filter(|&m| !p.make(m).in_check(p.white)).collect();
        ev.eval();
        let ft = features(p, &legal, pseudo.len());
        match self.which {
            Which::C01 => {
                let mut want: Vec<String> = legal.iter().map(|m| m.uci()).collect();
                want.sort();
                let got = eng::sorted_texts(g, true);
                if want != got {
                    let missing: Vec<&String> = want.iter().filter(|t| !got.contains(t)).collect();
                    let extra: Vec<&String> = got.iter().filter(|t| !want.contains(t)).collect();
                    let sig = if !missing.is_empty() {
                        "checked-list-misses-legal-move"
                    } else if !extra.is_empty() {
                        "checked-list-has-illegal-move"
                    } else {
                        "checked-list-repeats-a-move"
                    };
                    return Err(Fail::new(sig, format!("position {} : missing {:?} extra {:?} (engine list {:?})", p.fen4(), missing, extra, got)));
                }
                let gotu = eng::move_texts(g, false);
                let mut su = gotu.clone();
                su.sort();
                let n_before = su.len();
                su.dedup();
                if su.len() != n_before {
                    return Err(Fail::new("unchecked-list-repeats-a-move", format!("position {} unchecked list {:?}", p.fen4(), gotu)));
                }
                for t in &want {
                    if su.binary_search(t).is_err() {
                        return Err(Fail::new("unchecked-list-misses-legal-move", format!("position {} : {} not in unchecked list {:?}", p.fen4(), t, gotu)));
                    }
                }
                let mut extras = 0u64;
                for t in &su {
                    if want.binary_search(t).is_ok() {
                        continue;
                    }
                    extras += 1;
                    match pseudo.iter().find(|m| &m.uci() == t) {
                        None => {
                            return Err(Fail::new("unchecked-extra-not-a-piece-move", format!("position {} : unchecked move {} is not a geometrically valid move", p.fen4(), t)))
                        }
                        Some(&m) => {
                            if !p.make(m).in_check(p.white) {
                                return Err(Fail::new("unchecked-extra-is-legal", format!("position {} : {} ", p.fen4(), t)));
                            }
                        }
                    }
                }
                ev.class_n("unchecked_extras_verified_self_check", extras);
                corners(p, &pseudo, &legal, ev);
                if (g.player() == eng::Player::White) != p.white {
                    return Err(Fail::new("side-to-move", format!("position {}", p.fen4())));
                }
            }
            Which::C02 => {
                let got = eng::fen4(g);
                if got != p.fen4() {
                    return Err(Fail::new("position-after-move-differs", format!("engine {} / rules {}", got, p.fen4())));
                }
            }
            Which::C04 => {
                let h = self.zob.hash(p);
                if g.hash() != h {
                    return Err(Fail::new("hash-differs-from-key-file-combination", format!("position {} engine {:X} combined {:X}", p.fen4(), g.hash(), h)));
                }
                let text = g.fen();
                match eng::guarded(|| Game::new(&text)) {
                    Ok(Ok(g2)) => {
                        if g2.hash() != g.hash() {
                            return Err(Fail::new("hash-differs-after-text-import", format!("{} played {:X} imported {:X}", text, g.hash(), g2.hash())));
                        }
                    }
                    Ok(Err(e)) => return Err(Fail::new("export-not-importable", format!("{} : {}", text, e))),
                    Err(pn) => return Err(Fail::new("panic", format!("importing {} : {}", text, pn))),
                }
                let key = fp_pos(p);
                let mut seen = self.seen.borrow_mut();
                match seen.get(&key) {
                    Some(&(h0, r0)) => {
                        if h0 != g.hash() {
                            return Err(Fail::new("hash-depends-on-route", format!("position {} hashed {:X} earlier and {:X} now", p.fen4(), h0, g.hash())));
                        }
                        if r0 != route {
                            ev.class("position_revisited_by_another_route");
                            ev.nontrivial(key ^ 0x7777, ctxs);
                        }
                    }
                    None => {
                        if seen.len() < 2_000_000 {
                            seen.insert(key, (g.hash(), route));
                        }
                    }
                }
            }
            Which::C11 => {
                let text = g.fen();
                if let Err(e) = fen_regex_ok(&text) {
                    return Err(Fail::new("export-not-well-formed", format!("{:?}: {}", text, e)));
                }
                if eng::fen4(g) != p.fen4() {
                    return Err(Fail::new("export-describes-another-position", format!("engine {:?} / rules {:?}", text, p.fen4())));
                }
                match eng::guarded(|| Game::new(&text)) {
                    Ok(Ok(mut g2)) => {
                        if eng::fen4(&g2) != p.fen4() {
                            return Err(Fail::new("reimport-differs", format!("{} -> {}", text, g2.fen())));
                        }
                        if g2.hash() != g.hash() {
                            return Err(Fail::new("reimport-hash-differs", format!("{} {:X} -> {:X}", text, g.hash(), g2.hash())));
                        }
                        let (a, b) = (eng::sorted_texts(g, true), eng::sorted_texts(&mut g2, true));
                        if a != b {
                            return Err(Fail::new("reimport-legal-moves-differ", format!("{} {:?} -> {:?}", text, a, b)));
                        }
                        let mut want: Vec<String> = legal.iter().map(|m| m.uci()).collect();
                        want.sort();
                        if b != want {
                            return Err(Fail::new("reimport-legal-moves-differ-from-rules", format!("{} {:?} / {:?}", text, b, want)));
                        }
                    }
                    Ok(Err(e)) => return Err(Fail::new("export-not-importable", format!("{} : {}", text, e))),
                    Err(pn) => return Err(Fail::new("panic", format!("importing {} : {}", text, pn))),
                }
            }
        }
        // classification + non-triviality
        if ft.check {
            ev.class("in_check");
        }
        if ft.double_check {
            ev.class("double_check");
        }
        if ft.ep {
            ev.class("ep_file_set");
        }
        if ft.ep_capture_available {
            ev.class("ep_capture_legal");
        }
        if ft.castling_available {
            ev.class("castling_legal");
        }
        if ft.pinned_or_self_check_extra {
            ev.class("has_pseudo_legal_self_check_moves");
        }
        if legal.is_empty() {
            ev.class("dead_position");
        }
        let nt = match self.which {
            Which::C01 => ft.check || ft.double_check || ft.pinned_or_self_check_extra || ft.ep_capture_available || ft.castling_right || ft.pawn_on_seventh || ft.few_men,
            Which::C02 => false, // decided per move, below
            Which::C04 => false, // decided per move / revisit
            Which::C11 => {
                let r = p.rights_str();
                let empty_or_full_rank = (0..8).any(|rk| (0..8).all(|f| p.b[rk * 8 + f] == b'.') || (0..8).all(|f| p.b[rk * 8 + f] != b'.'));
                ft.ep || (r != "KQkq" && r != "-") || empty_or_full_rank
            }
        };
        if nt {
            ev.nontrivial(fp_pos(p), ctxs);
        }
        Ok(())
    }

    fn run_walk(&self, walk: &Walk, history: bool, expand: u8, ev: &mut Ev) -> Result<(), Fail> {
        let Some(r) = resolve_walk(walk) else {
            ev.skip("construction did not yield a sane position");
            return Ok(());
        };
        let start_fen = match &walk.start {
            Start::Curated(i) => CURATED[*i as usize % CURATED.len()].to_string(),
            _ => {
                // one start in three carries other counter fields than "0 1": halfmove clock up to 150, move number up to 6000
                let f = fp_pos(&r.start);
                if f % 3 == 0 {
                    let hm = if r.start.ep.is_some() { 0 } else { (f >> 8) % 151 };
                    let fm = (1 + (f >> 20) % 6000).max(hm / 2 + 1);
                    ev.class("start_with_other_counter_fields_than_0_1");
                    format!("{} {} {}", r.start.fen4(), hm, fm)
                } else {
                    r.start.fen6()
                }
            }
        };
        match &walk.start {
            Start::Curated(_) => ev.class("start_curated"),
            Start::Built(_) => ev.class("start_constructed"),
            Start::Fen(_) => ev.class("start_fen"),
        }
        let mut g = match eng::guarded(|| Game::new(&start_fen)) {
            Ok(Ok(g)) => g,
            Ok(Err(e)) => return Err(Fail::new("sane-position-not-importable", format!("{} : {}", start_fen, e))),
            Err(pn) => return Err(Fail::new("panic", format!("importing {} : {}", start_fen, pn))),
        };
        let mut p = r.start.clone();
        let mut route = fp_pos(&p);
        let mut walk_special = false;
        let n = r.moves.len();
        ev.class(match n {
            0 => "walk_len_0",
            1..=19 => "walk_len_1_19",
            20..=99 => "walk_len_20_99",
            100..=249 => "walk_len_100_249",
            _ => "walk_len_250_plus",
        });
        for (i, &m) in r.moves.iter().enumerate() {
            let sample = || json!({"start": start_fen, "moves": moves_text(&r.moves[..i]), "position": p.fen4()});
            self.at_position(&p, &mut g, ev, route, &sample)?;
            self.rare_successors(&p, &mut g, ev, route)?;
            let text = m.uci();
            let Some(em) = eng::find_legal(&mut g, &text) else {
                return Err(Fail::new("legal-move-not-offered", format!("position {} : {} is legal but not in the engine's checked list", p.fen4(), text)));
            };
            // move-level classification
            let cap = p.is_capture(m);
            let special = m.kind == K_EP || m.kind == K_OO || m.kind == K_OOO || m.promo != 0;
            let rook_home = matches_kind(&p, m, PK_ROOK_HOME);
            let q = p.make(m);
            let changes_state = q.cr != p.cr || q.ep.is_some() || p.ep.is_some();
            match m.kind {
                K_EP => ev.class("move_en_passant"),
                K_OO | K_OOO => ev.class("move_castling"),
                K_DOUBLE => ev.class("move_double_push"),
                _ => {}
            }
            if m.promo != 0 {
                ev.class(if cap { "move_promotion_capture" } else { "move_promotion" });
            }
            if rook_home {
                ev.class("move_from_or_onto_rook_home_square");
            }
            if q.ep.is_some() {
                ev.class("move_sets_ep_file");
            }
            if m.kind == K_DOUBLE && q.ep.is_none() {
                ev.class("move_double_push_without_neighbour");
            }
            if q.cr != p.cr {
                ev.class("move_changes_castling_rights");
            }
            if special || rook_home {
                walk_special = true;
            }
            if history {
                g.push_history(em);
            } else {
                g.push(em);
            }
            route = mix(route ^ fp_bytes(text.as_bytes()));
            match self.which {
                Which::C02 => {
                    if special || rook_home || q.ep.is_some() {
                        let fp = mix(fp_pos(&p) ^ fp_bytes(text.as_bytes()));
                        ev.nontrivial(fp, || json!({"position": p.fen4(), "move": text, "after": q.fen4()}));
                    }
                }
                Which::C04 => {
                    if changes_state || special {
                        let fp = mix(fp_pos(&p) ^ fp_bytes(text.as_bytes()));
                        ev.nontrivial(fp, || json!({"position": p.fen4(), "move": text, "after": q.fen4()}));
                    }
                }
                _ => {}
            }
            p = q;
        }
        let sample = || json!({"start": start_fen, "moves": moves_text(&r.moves), "position": p.fen4()});
        self.at_position(&p, &mut g, ev, route, &sample)?;
        if walk_special {
            ev.class("walks_with_special_move");
        }

        // C04: commuting-move transposition: swap our two last moves when that is legal too
        if self.which == Which::C04 && n >= 3 {
            self.transpose(&r, &g, ev)?;
        }

        // expansion of the final position: every legal successor (and their successors)
        if expand > 0 {
            self.expand(&p, &mut g, expand, ev, route)?;
        }
        Ok(())
    }

    /// Route B: the same walk with moves n-3 and n-1 (same side) exchanged, when both orders are legal
    /// and lead to the same position. Engine hashes of both routes must agree.
    fn transpose(&self, r: &Resolved, g_a: &Game, ev: &mut Ev) -> Result<(), Fail> {
        let n = r.moves.len();
        let mut order: Vec<RMove> = r.moves.clone();
        order.swap(n - 3, n - 1);
        let mut p = r.start.clone();
        let mut texts = Vec::new();
        for want in &order {
            let legal = p.legal();
            // the same text must be legal here, with the same meaning
            let Some(&m) = legal.iter().find(|m| m.uci() == want.uci()) else { return Ok(()) };
            texts.push(m.uci());
            p = p.make(m);
        }
        if p != r.end {
            return Ok(());
        }
        let mut g = Game::new(&r.start.fen6()).map_err(|e| Fail::new("sane-position-not-importable", e.to_string()))?;
        for t in &texts {
            let Some(em) = eng::find_legal(&mut g, t) else {
                return Err(Fail::new("legal-move-not-offered", format!("{} in {}", t, g.fen())));
            };
            g.push(em);
        }
        ev.class("transposition_pairs_compared");
        ev.nontrivial(mix(fp_pos(&p) ^ 0x1234), || json!({"start": r.start.fen4(), "route_a": moves_text(&r.moves), "route_b": texts.join(" ")}));
        if g.hash() != g_a.hash() {
            return Err(Fail::new(
                "hash-depends-on-route",
                format!("{} reached by [{}] hashes {:X}, by [{}] hashes {:X}", p.fen4(), moves_text(&r.moves), g_a.hash(), texts.join(" "), g.hash()),
            ));
        }
        Ok(())
    }

    /// Successors that combine two rare features, judged at every position of a walk (the walk itself takes only one
    /// move per position): any capture of a rook that stands on its home square with its castling right intact
    /// (by a king, a promoting pawn, anything), and - while an en-passant file is set - every special move, double
    /// pawn step, king move and capture (the old file must be gone afterwards whatever the move was).
    fn rare_successors(&self, p: &Pos, g: &mut Game, ev: &mut Ev, route: u64) -> Result<(), Fail> {
        const HOMES: [(u8, usize); 4] = [(0, 1), (7, 0), (56, 3), (63, 2)];
        let lower = |s: u8| p.b[s as usize].to_ascii_lowercase();
        if p.ep.is_none() && !p.cr.iter().any(|&x| x) {
            return Ok(());
        }
        for m in p.legal() {
            // (any move that starts or ends on a corner while some castling right is alive: a rook of either colour
            // arriving on, leaving or being captured on an enemy corner must touch exactly the right that lives there)
            let home_rook = p.cr.iter().any(|&x| x) && HOMES.iter().any(|&(sq, _)| m.to == sq || m.from == sq);
            let special = m.kind == K_EP || m.kind == K_OO || m.kind == K_OOO || m.promo != 0;
            let with_ep = p.ep.is_some() && (special || m.kind == K_DOUBLE || lower(m.from) == b'k' || p.is_capture(m));
            if !(home_rook || with_ep) {
                continue;
            }
            ev.class(if home_rook { "successors_of_moves_touching_a_corner_while_a_castling_right_is_alive" } else { "successors_of_special_moves_kings_and_captures_while_an_ep_file_is_set" });
            let text = m.uci();
            let Some(em) = eng::find_legal(g, &text) else {
                return Err(Fail::new("legal-move-not-offered", format!("position {} : {}", p.fen4(), text)));
            };
            let q = p.make(m);
            g.push(em);
            let res = self.at_position(&q, g, ev, mix(route ^ fp_bytes(text.as_bytes())), &|| json!({"position": q.fen4(), "reached_by": text, "from": p.fen4()}));
            g.pop(em);
            res?;
        }
        Ok(())
    }

    fn expand(&self, p: &Pos, g: &mut Game, depth: u8, ev: &mut Ev, route: u64) -> Result<(), Fail> {
        if depth == 0 {
            return Ok(());
        }
        for m in p.legal() {
            let text = m.uci();
            let Some(em) = eng::find_legal(g, &text) else {
                return Err(Fail::new("legal-move-not-offered", format!("position {} : {}", p.fen4(), text)));
            };
            let q = p.make(m);
            g.push(em);
            let r2 = mix(route ^ fp_bytes(text.as_bytes()));
            let res = self.at_position(&q, g, ev, r2, &|| json!({"position": q.fen4(), "reached_by": text, "from": p.fen4()})).and_then(|_| self.expand(&q, g, depth - 1, ev, r2));
            g.pop(em);
            res?;
        }
        Ok(())
    }

    /// The same observables through the real executable
    fn through_binary(&self, walk: &Walk, ev: &mut Ev) -> Result<(), Fail> {
        let Some(r) = resolve_walk(walk) else { return Ok(()) };
        let p = &r.end;
        if p.pseudo().len() > 250 || r.moves.len() > 390 {
            return Ok(());
        }
        let start_fen = r.start.fen6();
        ev.class("observations_through_the_binary");
        if self.which == Which::C01 {
            // perft divide of depth 2 from the command line
            let mut args: Vec<String> = vec!["perft".into(), "2".into(), start_fen.clone()];
            args.extend(r.moves.iter().map(|m| m.uci()));
            let out = std::process::Command::new(uci::ENGINE).args(&args).stdin(std::process::Stdio::null()).output().map_err(|e| Fail::new("harness", e.to_string()))?;
            let text = String::from_utf8_lossy(&out.stdout);
            let mut got: Vec<(String, u64)> = Vec::new();
            let mut total: Option<u64> = None;
            for l in text.lines() {
                if let Some((m, c)) = l.split_once(": ") {
                    if uci::looks_like_move(m) {
                        if let Ok(c) = c.trim().parse::<u64>() {
                            got.push((m.to_string(), c));
                        }
                    }
                } else if let Ok(t) = l.trim().parse::<u64>() {
                    total = Some(t);
                }
            }
            let mut want: Vec<(String, u64)> = p.legal().iter().map(|&m| (m.uci(), p.make(m).legal().len() as u64)).collect();
            want.sort();
            got.sort();
            let cmd = format!("rustybait perft 2 \"{}\" {}", start_fen, moves_text(&r.moves));
            if !out.status.success() {
                return Err(Fail::new("perft-command-fails", format!("{} : exit {:?} stderr {}", cmd, out.status.code(), String::from_utf8_lossy(&out.stderr).chars().take(300).collect::<String>())));
            }
            if got != want {
                return Err(Fail::new("perft-divide-differs-from-the-rules", format!("{} : engine {:?} / rules {:?}", cmd, got, want)));
            }
            let sum: u64 = want.iter().map(|x| x.1).sum();
            if total != Some(sum) {
                return Err(Fail::new("perft-divide-differs-from-the-rules", format!("{} : total {:?} , rules {}", cmd, total, sum)));
            }
            return Ok(());
        }
        let mut sess = Session::start(&[]).map_err(|e| Fail::new("harness", e))?;
        let cmd = format!("position fen {} moves {}", start_fen, moves_text(&r.moves));
        sess.send(&cmd);
        sess.send("show");
        let Some(lines) = sess.read_until(|l| l.starts_with("   a b c") || l.starts_with("error:"), 5000) else {
            sess.kill();
            return Err(Fail::new("show-unanswered", cmd));
        };
        let Some(sh) = uci::parse_show(&lines) else {
            sess.kill();
            return Err(Fail::new("legal-game-refused-by-position-command", format!("{} : {:?}", cmd, lines.iter().find(|l| l.starts_with("error:")))));
        };
        sess.quit();
        match self.which {
            Which::C02 => {
                if uci::fen4_of(&sh.fen) != p.fen4() {
                    return Err(Fail::new("position-after-move-differs", format!("{} then show: {} / rules {}", cmd, sh.fen, p.fen4())));
                }
            }
            Which::C04 => {
                let want = format!("{:X}", self.zob.hash(p));
                if sh.hash.trim_start_matches('0') != want.trim_start_matches('0') {
                    return Err(Fail::new("hash-differs-from-key-file-combination", format!("{} then show: Hash {} / combined {}", cmd, sh.hash, want)));
                }
            }
            Which::C11 => {
                fen_regex_ok(&sh.fen).map_err(|e| Fail::new("export-not-well-formed", format!("{} then show: {:?}: {}", cmd, sh.fen, e)))?;
                if uci::fen4_of(&sh.fen) != p.fen4() {
                    return Err(Fail::new("export-describes-another-position", format!("{} then show: {:?} / rules {:?}", cmd, sh.fen, p.fen4())));
                }
            }
            Which::C01 => {}
        }
        Ok(())
    }

    fn run_fen(&self, fen: &str, ev: &mut Ev) -> Result<(), Fail> {
        let p = Pos::from_fen(fen).map_err(|e| Fail::new("harness", format!("bad case FEN {}: {}", fen, e)))?;
        if !p.sane() {
            return Err(Fail::new("harness", format!("case FEN not sane: {}", fen)));
        }
        let mut g = match eng::guarded(|| Game::new(fen)) {
            Ok(Ok(g)) => g,
            Ok(Err(e)) => return Err(Fail::new("sane-position-not-importable", format!("{} : {}", fen, e))),
            Err(pn) => return Err(Fail::new("panic", format!("importing {} : {}", fen, pn))),
        };
        let route = fp_pos(&p);
        self.at_position(&p, &mut g, ev, route, &|| json!({"position": fen}))?;
        // every successor, so that C02 / C04 have moves to judge on enumerated positions too
        self.expand(&p, &mut g, 1, ev, route)
    }
}

/// En-passant laboratory: a black pawn has just made its double step to the fifth rank of file f; one or both
/// neighbouring files hold a white pawn that may capture it; the white king stands anywhere within two squares of
/// the three pawns; one black rook, bishop or queen stands anywhere (pins along the rank, the file and the diagonals,
/// checks by the pushed pawn itself, by the slider, discovered attacks); the black king keeps out of the way. Every
/// sane placement, and its colour mirror. `step` thins the slider squares (1 = all).
pub fn ep_lab_positions(step: usize, mut f: impl FnMut(u64, &Pos)) {
    let mut i = 0u64;
    for file in 0..8usize {
        for capt in 1..=3u8 {
            let left = capt & 1 != 0 && file > 0;
            let right = capt & 2 != 0 && file < 7;
            if !left && !right {
                continue;
            }
            if (capt & 1 != 0 && file == 0) || (capt & 2 != 0 && file == 7) {
                continue;
            }
            let mut base = [b'.'; 64];
            base[32 + file] = b'p';
            if left {
                base[32 + file - 1] = b'P';
            }
            if right {
                base[32 + file + 1] = b'P';
            }
            for wk in 8..56usize {
                if base[wk] != b'.' || wk == 40 + file || wk == 48 + file {
                    continue;
                }
                let (kr, kf) = ((wk / 8) as i32, (wk % 8) as i32);
                if (kr - 4).abs() > 2 || (kf - file as i32).abs() > 3 {
                    continue;
                }
                for bk in [63usize, 56, 7, 0] {
                    if base[bk] != b'.' || bk == wk || ((bk / 8) as i32 - kr).abs().max(((bk % 8) as i32 - kf).abs()) <= 1 {
                        continue;
                    }
                    for sl in (0..64usize).step_by(step) {
                        if base[sl] != b'.' || sl == wk || sl == bk || sl == 40 + file || sl == 48 + file {
                            continue;
                        }
                        for piece in [b'r', b'b', b'q'] {
                            let mut b = base;
                            b[wk] = b'K';
                            b[bk] = b'k';
                            b[sl] = piece;
                            let p = Pos { b, white: true, cr: [false; 4], ep: Some(file as u8) };
                            if !p.sane() {
                                continue;
                            }
                            f(i, &p);
                            i += 1;
                            f(i, &p.mirror());
                            i += 1;
                        }
                    }
                    break;
                }
            }
        }
    }
}

/// Castling laboratory: white king and rook(s) at home with the right(s), at most one own knight somewhere on the
/// first rank between them, one or two black men (queen, rook, bishop, knight, pawn) anywhere: every geometry in
/// which a square the king starts on, crosses or reaches - or only the rook's path - is attacked or blocked.
/// Every sane placement and its colour mirror.
pub fn castling_lab_positions(two_attackers: bool, mut f: impl FnMut(u64, &Pos)) {
    let mut i = 0u64;
    for rights in 1..=3u8 {
        for blocker in [99usize, 1, 2, 3, 5, 6] {
            let mut base = [b'.'; 64];
            base[4] = b'K';
            let mut cr = [false; 4];
            if rights & 1 != 0 {
                base[7] = b'R';
                cr[0] = true;
            }
            if rights & 2 != 0 {
                base[0] = b'R';
                cr[1] = true;
            }
            if blocker < 64 {
                base[blocker] = b'N';
            }
            for bk in [62usize, 57] {
                base[bk] = b'k';
                for a1 in 8..64usize {
                    if base[a1] != b'.' {
                        continue;
                    }
                    for pc1 in [b'q', b'r', b'b', b'n', b'p'] {
                        if pc1 == b'p' && a1 / 8 == 7 {
                            continue;
                        }
                        let seconds: Vec<(usize, u8)> = if two_attackers { (8..32usize).filter(|&q| q != a1 && base[q] == b'.').flat_map(|q| [(q, b'n'), (q, b'b')]).collect() } else { vec![(99, b'.')] };
                        for (a2, pc2) in seconds {
                            let mut b = base;
                            b[a1] = pc1;
                            if a2 < 64 {
                                b[a2] = pc2;
                            }
                            let p = Pos { b, white: true, cr, ep: None };
                            if !p.sane() {
                                continue;
                            }
                            f(i, &p);
                            i += 1;
                            f(i, &p.mirror());
                            i += 1;
                        }
                    }
                }
                base[bk] = b'.';
            }
        }
    }
}

/// Promotion laboratory: a white pawn on the seventh rank of file f; each of the three squares in front of it
/// (f-1, f, f+1 on the eighth rank) empty or holding a black rook, knight, bishop or queen; the black king on any
/// square of the two last ranks; the white king far away or anywhere in the three ranks below the pawn within two
/// files (pawn pinned on a diagonal by the piece it may capture, promotion with check, capture of a home rook whose
/// right is intact - granted whenever king and rook stand at home). Every sane placement and its colour mirror.
pub fn promotion_lab_positions(mut f: impl FnMut(u64, &Pos)) {
    let mut i = 0u64;
    const AHEAD: [u8; 5] = [b'.', b'r', b'n', b'b', b'q'];
    for file in 0..8usize {
        for a in 0..125usize {
            let (l, m, r) = (AHEAD[a % 5], AHEAD[(a / 5) % 5], AHEAD[a / 25]);
            if (file == 0 && l != b'.') || (file == 7 && r != b'.') {
                continue;
            }
            let mut base = [b'.'; 64];
            base[48 + file] = b'P';
            if file > 0 {
                base[56 + file - 1] = l;
            }
            base[56 + file] = m;
            if file < 7 {
                base[56 + file + 1] = r;
            }
            for bk in 48..64usize {
                if base[bk] != b'.' {
                    continue;
                }
                let mut wks: Vec<usize> = vec![if bk % 8 < 4 { 7 } else { 0 }];
                for rk in 4..7usize {
                    for df in -2i32..=2 {
                        let ff = file as i32 + df;
                        if (0..8).contains(&ff) {
                            wks.push(rk * 8 + ff as usize);
                        }
                    }
                }
                for wk in wks {
                    if base[wk] != b'.' || wk == bk {
                        continue;
                    }
                    let mut b = base;
                    b[bk] = b'k';
                    b[wk] = b'K';
                    let cr = [false, false, bk == 60 && b[63] == b'r', bk == 60 && b[56] == b'r'];
                    let p = Pos { b, white: true, cr, ep: None };
                    if !p.sane() {
                        continue;
                    }
                    f(i, &p);
                    i += 1;
                    f(i, &p.mirror());
                    i += 1;
                }
            }
        }
    }
}

/// All sane placements of K + X vs K for the given extra man, both sides to move
pub fn kxk_positions(x: u8, mut f: impl FnMut(u64, &Pos)) {
    let mut i = 0u64;
    for wk in 0..64usize {
        for bk in 0..64usize {
            if wk == bk {
                continue;
            }
            for xs in 0..64usize {
                if xs == wk || xs == bk {
                    continue;
                }
                for white in [true, false] {
                    let mut b = [b'.'; 64];
                    b[wk] = b'K';
                    b[bk] = b'k';
                    b[xs] = x;
                    let p = Pos { b, white, cr: [false; 4], ep: None };
                    i += 1;
                    if p.sane() {
                        f(i, &p);
                    }
                }
            }
        }
    }
}

impl Prop for PosWalk {
    type Case = PosCase;

    fn id(&self) -> &'static str {
        self.id_str()
    }

    fn rule(&self) -> String {
        let common = "Cases: proptest-generated walks (start = curated sane FEN or constructed random sane position with 2-32 men, castling rights and en-passant file FIDE-style or capturable; moves = picks with kind preferences capture/promotion/castle/ep/king/rook-home/double-push/check/undo resolved against the reference model's legal list; lengths 0-397) with the oracle evaluated at every position of the walk and at every legal successor of the final position (depth 1-2); about 1 walk in 250 is also observed through the real executable (C01: `rustybait perft 2 <fen> <moves>` divide against the model's divide; C02/C04/C11: `position fen … moves …` + `show` lines); at every position of a walk the successors that combine two rare features are judged as well (any move from or onto a corner square while a castling right is alive; every special move, double pawn step, king move and capture while an en-passant file is set); one constructed start in three carries other FEN counter fields than `0 1` (halfmove clock to 150, move number to 6000); every tier expands the four-rook family (kings and all four rooks at home, all rights: every line of four plies, five in the thorough tier) and enumerates the en-passant laboratory (a pawn that has just made its double step, one or two capturers beside it, the capturing side's king anywhere within two squares of the three pawns, one enemy rook, bishop or queen anywhere - every sane placement, both colours) and the castling laboratory (king and rook(s) at home with the right(s), at most one own knight between them, one enemy queen, rook, bishop, knight or pawn anywhere - in the thorough tier a second enemy minor piece on ranks 2-4 -, both colours) and the promotion laboratory (a pawn on the seventh rank, each of the three squares in front of it empty or holding an enemy rook, knight, bishop or queen, the enemy king anywhere on the last two ranks - with the castling right whenever it stands at home beside a home rook -, the own king far away or within the three ranks below the pawn), each position with all its successors; thorough adds the exhaustive K+X v K tables. evaluations = positions compared. ";
        let nt = match self.which {
            Which::C01 => "Non-trivial position: in check, double check, has pseudo-legal moves that expose the own king (pins), en-passant capture legal, a castling right present, pawn one step from promotion, or at most 4 men; distinct by (placement, side, rights, ep).",
            Which::C02 => "Non-trivial case: a (position, move) pair where the move is castling, en passant, a promotion, moves from or captures on a rook home square, or records an en-passant file; distinct by position and move.",
            Which::C04 => "Non-trivial case: a (position, move) pair that changes castling rights or the en-passant file or is a castling/ep/promotion; a position reached again by a different route; a commuted-move transposition pair; distinct by position (and move).",
            Which::C11 => "Non-trivial position: en-passant field present, castling field neither KQkq nor '-', or a completely empty or completely full rank; distinct by position.",
        };
        format!("{}{}", common, nt)
    }

    fn assumptions(&self) -> Vec<String> {
        vec![
            "trusted base: the independent reference model (harness/src/refchess.rs), pinned to the published perft totals by the self-test that runs before every check".into(),
            "domain restricted to sane positions (one king each, no pawns on rank 1/8, side not to move not in check, rights and en-passant file consistent with the board) with at most 250 pseudo-legal moves".into(),
            "exploration, not proof: a defect confined to positions the generators do not reach is not detected".into(),
        ]
    }

    fn cases(&self, tier: Tier) -> u32 {
        match self.which {
            Which::C01 => tier.pick(120_000, 2_000_000),
            Which::C02 => tier.pick(120_000, 2_000_000),
            Which::C04 => tier.pick(100_000, 1_500_000),
            Which::C11 => tier.pick(100_000, 1_500_000),
        }
    }

    fn strategy(&self, ctx: &Ctx) -> BoxedStrategy<PosCase> {
        let long = self.which != Which::C01 || ctx.tier == Tier::Thorough;
        let expand_max: u8 = match (self.which, ctx.tier) {
            (Which::C01, Tier::Thorough) => 3,
            (Which::C01, Tier::Quick) => 2,
            _ => 2,
        };
        (walk_strategy(long), any::<bool>(), 0u8..expand_max, prop::bool::weighted(0.004))
            .prop_map(|(walk, history, expand, via_binary)| PosCase::Walk { walk, history, expand, via_binary })
            .boxed()
    }

    fn check(&self, _ctx: &Ctx, case: &PosCase, ev: &mut Ev) -> Result<(), Fail> {
        match case {
            PosCase::Walk { walk, history, expand, via_binary } => {
                self.run_walk(walk, *history, *expand, ev)?;
                if *via_binary {
                    self.through_binary(walk, ev)?;
                }
                Ok(())
            }
            PosCase::Fen { fen } => self.run_fen(fen, ev),
            PosCase::Golden { fen, hash } => {
                let p = Pos::from_fen(fen).map_err(|e| Fail::new("harness", e))?;
                let g = Game::new(fen).map_err(|e| Fail::new("sane-position-not-importable", e.to_string()))?;
                ev.eval();
                ev.class("golden_pairs");
                let h = format!("{:X}", g.hash());
                if &h != hash {
                    return Err(Fail::new("hash-differs-from-golden-value", format!("{} hashes {} , pinned value {}", fen, h, hash)));
                }
                if format!("{:X}", self.zob.hash(&p)) != *hash {
                    return Err(Fail::new("hash-differs-from-golden-value", format!("key file no longer yields the pinned value {} for {}", hash, fen)));
                }
                Ok(())
            }
        }
    }

    fn enumerate(&self, ctx: &Ctx, ev: &mut Ev, report: &mut dyn FnMut(PosCase, Fail)) {
        // curated roots themselves, always
        for (i, f) in CURATED.iter().enumerate() {
            if ctx.owns(i as u64) {
                let case = PosCase::Fen { fen: f.to_string() };
                if let Err(fail) = self.check(ctx, &case, ev) {
                    report(case, fail);
                    return;
                }
            }
        }
        if self.which == Which::C04 {
            for (i, (fen, hash)) in crate::props::golden::GOLDEN.iter().enumerate() {
                if ctx.owns(i as u64) {
                    let case = PosCase::Golden { fen: fen.to_string(), hash: hash.to_string() };
                    if let Err(fail) = self.check(ctx, &case, ev) {
                        report(case, fail);
                        return;
                    }
                }
            }
        }
        // the en-passant laboratory (all four properties: move lists, successors, hashes, exported text)
        {
            let mut failed: Option<(PosCase, Fail)> = None;
            let mut n = 0u64;
            ep_lab_positions(1, |i, p| {
                if failed.is_some() || !ctx.owns(i) {
                    return;
                }
                n += 1;
                let fen = p.fen6();
                if let Err(fail) = self.run_fen(&fen, ev) {
                    failed = Some((PosCase::Fen { fen }, fail));
                }
            });
            ev.class_n("en_passant_laboratory_positions", n);
            if let Some((c, f)) = failed {
                report(c, f);
                return;
            }
        }
        // the four-rook family: both kings and all four rooks at home with all rights, every line of four plies
        for (k, fen) in ["r3k2r/8/8/8/8/8/8/R3K2R w KQkq - 0 1", "r3k2r/8/8/8/8/8/8/R3K2R b KQkq - 0 1"].iter().enumerate() {
            if !ctx.owns(7000 + k as u64) {
                continue;
            }
            // every position up to (depth - 1) plies below the root is judged as a case of its own (imported from
            // text, with all its successors), so that a failure is replayed from a self-contained FEN
            let depth = if ctx.tier == Tier::Thorough { 5 } else { 4 };
            let mut stack: Vec<(Pos, u8)> = vec![(Pos::from_fen(fen).unwrap(), 0)];
            let mut n = 0u64;
            while let Some((p, d)) = stack.pop() {
                n += 1;
                let f6 = p.fen6();
                if let Err(fail) = self.run_fen(&f6, ev) {
                    report(PosCase::Fen { fen: f6 }, fail);
                    return;
                }
                if d + 1 < depth {
                    for m in p.legal() {
                        stack.push((p.make(m), d + 1));
                    }
                }
            }
            ev.class_n("four_rook_family_positions_with_all_successors", n);
        }
        // the castling laboratory
        {
            let mut failed: Option<(PosCase, Fail)> = None;
            let mut n = 0u64;
            castling_lab_positions(ctx.tier == Tier::Thorough, |i, p| {
                if failed.is_some() || !ctx.owns(i) {
                    return;
                }
                n += 1;
                let fen = p.fen6();
                if let Err(fail) = self.run_fen(&fen, ev) {
                    failed = Some((PosCase::Fen { fen }, fail));
                }
            });
            ev.class_n("castling_laboratory_positions", n);
            if let Some((c, f)) = failed {
                report(c, f);
                return;
            }
        }
        // the promotion laboratory
        {
            let mut failed: Option<(PosCase, Fail)> = None;
            let mut n = 0u64;
            promotion_lab_positions(|i, p| {
                if failed.is_some() || !ctx.owns(i) {
                    return;
                }
                n += 1;
                let fen = p.fen6();
                if let Err(fail) = self.run_fen(&fen, ev) {
                    failed = Some((PosCase::Fen { fen }, fail));
                }
            });
            ev.class_n("promotion_laboratory_positions", n);
            if let Some((c, f)) = failed {
                report(c, f);
                return;
            }
        }
        // exhaustive small endgames
        let tables: &[u8] = match (self.which, ctx.tier) {
            (Which::C01, Tier::Thorough) => b"QRBNPqrbnp",
            (Which::C01, Tier::Quick) => b"QRBNPqrbnp",
            (_, Tier::Thorough) => b"QRPqp",
            (_, Tier::Quick) => b"",
        };
        for &x in tables {
            let mut failed: Option<(PosCase, Fail)> = None;
            let mut n = 0u64;
            kxk_positions(x, |i, p| {
                if failed.is_some() || !ctx.owns(i) {
                    return;
                }
                n += 1;
                let fen = p.fen6();
                let r = if self.which == Which::C01 {
                    // cheap path: the position itself only
                    match Game::new(&fen) {
                        Ok(mut g) => self.at_position(p, &mut g, ev, 0, &|| json!({"position": fen})),
                        Err(e) => Err(Fail::new("sane-position-not-importable", format!("{} : {}", fen, e))),
                    }
                } else {
                    self.run_fen(&fen, ev)
                };
                if let Err(fail) = r {
                    failed = Some((PosCase::Fen { fen }, fail));
                }
            });
            ev.class_n(&format!("exhaustive_K{}K_positions", x as char), n);
            if let Some((c, f)) = failed {
                report(c, f);
                return;
            }
        }
    }

    fn extra_evidence(&self, tier: Tier, classes: &BTreeMap<String, u64>) -> Value {
        let tables: Vec<String> = classes.keys().filter(|k| k.starts_with("exhaustive_")).cloned().collect();
        json!({
            "exhaustive": false,
            "exhaustive_subspaces": tables,
            "exhaustive_note": if tier == Tier::Thorough || !tables.is_empty() { "the listed K+X v K tables (all sane placements, both sides to move) were enumerated completely; the property's full domain was sampled" } else { "no exhaustive sub-space in this tier" },
        })
    }
}
