//! C17: FEN import is faithful and rejects malformed text without crashing.

use crate::eng::{self, Game};
use crate::ev::*;
use crate::gen::*;
use crate::refchess::*;
use crate::runner::{Ctx, Prop};
use crate::uci::{self, Session};
use proptest::collection::vec;
use proptest::prelude::*;
use serde::{Deserialize, Serialize};
use serde_json::json;

#[derive(Serialize, Deserialize, Clone, Debug)]
pub struct Edit {
    /// 0 insert, 1 delete, 2 replace, 3 duplicate, 4 truncate, 5 swap with next
    pub op: u8,
    /// 0-5: inside that field; 6+: anywhere
    pub field: u8,
    pub pos: u16,
    pub ch: u16,
}

#[derive(Serialize, Deserialize, Clone, Debug)]
pub enum FenCase {
    /// a well-formed FEN rendered by the model from the end of a walk, then 0-3 edits
    Mutant { walk: Walk, style: u8, edits: Vec<Edit>, via_uci: bool },
    /// a raw string (regression files, fuzz findings)
    Text { text: String },
}

pub struct C17;

pub const ALPHABET: &[char] = &[
    '0', '1', '2', '3', '4', '5', '6', '7', '8', '9', '9', '0', '/', '/', ' ', ' ', '-', 'w', 'b', 'K', 'Q', 'k', 'q', 'P', 'N', 'B', 'R', 'p', 'n', 'r', 'a', 'b', 'c', 'd',
    'e', 'f', 'g', 'h', 'i', 'x', 'z', 'A', 'E', 'H', 'W', 'é', 'š', '♔', '\t', '\u{1}',
    // characters that the `char` predicates of the standard library class with digits, letters or blanks although
    // they are not ASCII: decimal digits of other scripts, superscripts, fractions and letter-like numerals
    // (`is_numeric`), the Kelvin sign and the long s (whose case mappings are ASCII letters), full-width forms,
    // no-break / em / ideographic spaces (`is_whitespace`), dashes and a full-width slash
    '\u{0663}', '\u{0668}', '\u{FF18}', '\u{FF11}', '\u{00B2}', '\u{00B9}', '\u{3038}', '\u{0F33}', '\u{00BD}', '\u{2167}', '\u{2460}',
    '\u{212A}', '\u{017F}', '\u{0131}', '\u{FF2B}', '\u{FF50}', '\u{FF57}',
    '\u{00A0}', '\u{2003}', '\u{3000}', '\u{2028}', '\u{FF0F}', '\u{FF0D}', '\u{2013}',
];

/// Canonicalisation `T`: the most lenient reading a FEN-like text can be given. Collapse whitespace; sum
/// runs of adjacent digits in a rank (`0` counts as nothing, a run above 8 has no reading); first
/// character of the side field; castling letters de-duplicated and reordered (`-` ignored); en
/// passant: `-…` reads as `-`, a first letter a-h reads as that file on the rank implied by the side
/// to move, anything else has no reading; fields from the fifth on are ignored.
pub fn canon(s: &str) -> Option<String> {
    let f: Vec<&str> = s.split_ascii_whitespace().collect();
    if f.len() < 4 {
        return None;
    }
    let mut board = String::new();
    let mut run = 0u32;
    for c in f[0].chars() {
        if let Some(d) = c.to_digit(10) {
            run += d;
            if run > 8 {
                return None;
            }
        } else {
            if run > 0 {
                board.push_str(&run.to_string());
                run = 0;
            }
            board.push(c);
        }
    }
    if run > 0 {
        board.push_str(&run.to_string());
    }
    let side = match f[1].chars().next()? {
        'w' => "w",
        'b' => "b",
        _ => return None,
    };
    let mut cr = [false; 4];
    for c in f[2].chars() {
        match c {
            'K' => cr[0] = true,
            'Q' => cr[1] = true,
            'k' => cr[2] = true,
            'q' => cr[3] = true,
            '-' => {}
            _ => return None,
        }
    }
    let mut crs: String = "KQkq".chars().enumerate().filter(|(i, _)| cr[*i]).map(|(_, c)| c).collect();
    if crs.is_empty() {
        crs.push('-');
    }
    let e0 = f[3].chars().next()?;
    let ep = if e0 == '-' {
        "-".to_string()
    } else if ('a'..='h').contains(&e0) {
        format!("{}{}", e0, if side == "w" { '6' } else { '3' })
    } else {
        return None;
    };
    Some(format!("{} {} {} {}", board, side, crs, ep))
}

#[derive(Debug, Clone, Copy, PartialEq)]
pub enum Verdict {
    AcceptedWellFormed,
    AcceptedLenientReading,
    Rejected,
}

/// The whole C17 oracle on one string (shared with the libFuzzer target).
pub fn judge(text: &str, zob: &Zob) -> Result<Verdict, Fail> {
    let strict = Pos::from_fen(text);
    let wellformed_sane = matches!(&strict, Ok(p) if p.sane());
    let r = eng::guarded(|| {
        Game::new(text).map(|mut g| {
            let list = if wellformed_sane { Some(eng::sorted_texts(&mut g, true)) } else { None };
            (eng::fen4(&g), g.hash(), list)
        })
    });
    let r = match r {
        Ok(r) => r,
        Err(pn) => return Err(Fail::new("fen-import-panics", format!("{:?} : {}", text, pn))),
    };
    if let (true, Ok(p)) = (wellformed_sane, &strict) {
        match r {
            Err(e) => Err(Fail::new("well-formed-fen-refused", format!("{:?} : {}", text, e))),
            Ok((f4, hash, list)) => {
                if f4 != p.fen4() {
                    return Err(Fail::new("well-formed-fen-imported-as-a-different-position", format!("{:?} imported as {}", text, f4)));
                }
                if hash != zob.hash(p) {
                    return Err(Fail::new("well-formed-fen-imported-with-a-wrong-hash", format!("{:?} : {:X} , key-file combination {:X}", text, hash, zob.hash(p))));
                }
                if p.pseudo().len() <= 250 {
                    let mut want: Vec<String> = p.legal().iter().map(|m| m.uci()).collect();
                    want.sort();
                    if list.as_ref() != Some(&want) {
                        return Err(Fail::new("well-formed-fen-imported-with-other-legal-moves", format!("{:?} : engine {:?} rules {:?}", text, list, want)));
                    }
                }
                Ok(Verdict::AcceptedWellFormed)
            }
        }
    } else {
        match r {
            Err(_) => Ok(Verdict::Rejected),
            Ok((f4, _, _)) => match canon(text).and_then(|c| Pos::from_fen(&c).ok()) {
                None => Err(Fail::new("malformed-fen-accepted-without-a-reading", format!("{:?} is accepted as {} although no reading of the text describes a position", text, f4))),
                Some(p2) => {
                    if p2.fen4() != f4 {
                        Err(Fail::new("malformed-fen-imported-as-a-different-position", format!("{:?} is imported as {} ; its most lenient reading is {}", text, f4, p2.fen4())))
                    } else {
                        Ok(Verdict::AcceptedLenientReading)
                    }
                }
            },
        }
    }
}

/// Render the base FEN: style%3 selects 4/5/6 fields; (style/3)%2 == 1 gives the en-passant square
/// FIDE-style (after every double push), otherwise only when capturable.
pub fn render(r: &Resolved, style: u8) -> String {
    let mut p = r.end.clone();
    if (style / 3) % 2 == 1 {
        if let Some(last) = r.moves.last() {
            if last.kind == K_DOUBLE {
                p.ep = Some(last.to % 8);
            }
        }
    }
    // counters over their whole legitimate range: halfmove clock 0-150 (the seventy-five-move rule ends a game
    // there), move number up to 6000 (longer than any possible game) - with the boundary values of narrow integer types
    let h = mix(style as u64 * 131 + r.moves.len() as u64);
    let half: u64 = match h % 4 {
        0 => (style as u64 * 7) % 50,
        1 => [0u64, 49, 50, 99, 100, 101, 127, 128, 149, 150][(h >> 8) as usize % 10],
        _ => (h >> 8) % 151,
    };
    let full: u64 = match (h >> 4) % 4 {
        0 => 1 + r.moves.len() as u64 / 2,
        1 => [1u64, 127, 128, 255, 256, 257, 999, 1000, 4095, 6000][(h >> 16) as usize % 10],
        _ => 1 + (h >> 16) % 6000,
    }
    .max(half / 2 + 1);
    match style % 3 {
        0 => p.fen4(),
        1 => format!("{} {}", p.fen4(), half),
        _ => format!("{} {} {}", p.fen4(), half, full),
    }
}

pub fn apply_edits(base: &str, edits: &[Edit]) -> String {
    let mut s: Vec<char> = base.chars().collect();
    for e in edits {
        // field boundaries in the current text
        let mut ranges: Vec<(usize, usize)> = Vec::new();
        let mut i = 0;
        while i < s.len() {
            while i < s.len() && s[i] == ' ' {
                i += 1;
            }
            let st = i;
            while i < s.len() && s[i] != ' ' {
                i += 1;
            }
            if i > st {
                ranges.push((st, i));
            }
        }
        let (lo, hi) = if (e.field as usize) < ranges.len() { ranges[e.field as usize] } else { (0, s.len()) };
        let span = hi - lo + 1;
        let at = lo + ((e.pos as usize * span) >> 16);
        let ch = ALPHABET[(e.ch as usize * ALPHABET.len()) >> 16];
        // truncation is kept rare: it turns every case into a 'field count' case
        match [0u8, 0, 0, 1, 1, 1, 2, 2, 2, 3, 5, 4][e.op as usize % 12] {
            0 => s.insert(at.min(s.len()), ch),
            1 => {
                if at < s.len() {
                    s.remove(at);
                }
            }
            2 => {
                if at < s.len() {
                    s[at] = ch;
                }
            }
            3 => {
                if at < s.len() {
                    let c = s[at];
                    s.insert(at, c);
                }
            }
            4 => {
                if at < s.len() && at > 0 {
                    s.truncate(at);
                }
            }
            _ => {
                if at + 1 < s.len() {
                    s.swap(at, at + 1);
                }
            }
        }
    }
    s.into_iter().collect()
}

/// class of a mutant for the evidence file
fn classify(text: &str, base: &str) -> &'static str {
    if text == base {
        return "unedited_well_formed";
    }
    let f: Vec<&str> = text.split_ascii_whitespace().collect();
    let b: Vec<&str> = base.split_ascii_whitespace().collect();
    if !text.is_ascii() {
        return "multi_byte_character";
    }
    if f.len() != b.len() {
        return "field_count_changed";
    }
    if f[0] != b[0] {
        let (rf_, rb) = (f[0].split('/').count(), b[0].split('/').count());
        if rf_ != rb {
            return "rank_count_changed";
        }
        if f[0].contains('0') || f[0].contains('9') {
            return "digit_0_or_9_in_placement";
        }
        return "placement_edited";
    }
    if f.len() > 1 && f[1] != b[1] {
        return "side_field_edited";
    }
    if f.len() > 2 && f[2] != b[2] {
        return "castling_field_edited";
    }
    if f.len() > 3 && f[3] != b[3] {
        return "en_passant_field_edited";
    }
    "counter_fields_or_spacing_edited"
}

impl C17 {
    fn through_binary(&self, text: &str, ev: &mut Ev) -> Result<(), Fail> {
        if text.chars().any(|c| c.is_control() && c != '\t') || text.split_ascii_whitespace().any(|t| t == "moves") || text.trim().is_empty() {
            ev.skip("string not sendable on one UCI line");
            return Ok(());
        }
        let strict = Pos::from_fen(text);
        let mut sess = Session::start(&[]).map_err(|e| Fail::new("harness", e))?;
        sess.send(&format!("position fen {}", text));
        sess.send("isready");
        let Some(lines1) = sess.read_until(|l| uci::readyok(l), 15_000) else {
            let pan = sess.panicked();
            let alive = sess.alive();
            sess.kill();
            return Err(Fail::new("fen-import-panics", format!("position fen {:?}: no readyok afterwards (alive={}, stderr: {:?})", text, alive, pan)));
        };
        sess.send("show");
        let Some(lines2) = sess.read_until(|l| l.starts_with("   a b c") || l.starts_with("error: No game"), 15_000) else {
            sess.kill();
            return Err(Fail::new("fen-import-panics", format!("position fen {:?}: `show` unanswered", text)));
        };
        let refused = lines1.iter().any(|l| l.starts_with("error:"));
        let shown = uci::parse_show(&lines2);
        ev.class("uci_sessions");
        let res = match (&strict, shown) {
            (Ok(p), shown) if p.sane() => match shown {
                Some(sh) if uci::fen4_of(&sh.fen) == p.fen4() && !refused => Ok(()),
                other => Err(Fail::new("well-formed-fen-refused", format!("position fen {:?}: refused={} shown={:?}", text, refused, other.map(|s| s.fen)))),
            },
            (_, None) => Ok(()), // refused, no game
            (_, Some(sh)) => match canon(text).and_then(|c| Pos::from_fen(&c).ok()) {
                Some(p2) if p2.fen4() == uci::fen4_of(&sh.fen) => Ok(()),
                Some(p2) => Err(Fail::new("malformed-fen-imported-as-a-different-position", format!("position fen {:?}: shows {} ; most lenient reading {}", text, sh.fen, p2.fen4()))),
                None => Err(Fail::new("malformed-fen-accepted-without-a-reading", format!("position fen {:?}: shows {}", text, sh.fen))),
            },
        };
        if res.is_ok() {
            match sess.quit_within(3000) {
                Some(0) => {}
                other => {
                    return Err(Fail::new("fen-import-panics", format!("position fen {:?}: engine did not exit cleanly on quit ({:?})", text, other)));
                }
            }
        }
        sess.kill();
        res
    }

    fn judge_counted(&self, text: &str, base: Option<&str>, ev: &mut Ev) -> Result<(), Fail> {
        thread_local! { static ZOB: Zob = Zob::repo(); }
        ev.eval();
        let v = ZOB.with(|z| judge(text, z))?;
        ev.class(match v {
            Verdict::AcceptedWellFormed => "accepted_well_formed",
            Verdict::AcceptedLenientReading => "accepted_with_lenient_reading",
            Verdict::Rejected => "rejected",
        });
        let cls = base.map(|b| classify(text, b)).unwrap_or("raw_text");
        ev.class(&format!("mutant_{}", cls));
        let nontrivial = match base {
            Some(b) => Pos::from_fen(text).is_err() && canon(text).as_deref() != canon(b).as_deref(),
            None => true,
        };
        if nontrivial {
            ev.nontrivial(fp_bytes(text.as_bytes()), || json!({"text": text, "class": cls, "verdict": format!("{:?}", v)}));
        }
        Ok(())
    }
}

impl Prop for C17 {
    type Case = FenCase;

    fn id(&self) -> &'static str {
        "C17"
    }

    fn rule(&self) -> String {
        "Cases: a well-formed FEN rendered by the reference model from the end of a generated walk (4, 5 or 6 fields, halfmove clock 0-150 and move number 1-6000 with the boundary values of narrow integer types; en-passant square FIDE-style after every double push or only when capturable), then 0-3 generated edits (insert / delete / replace / duplicate / truncate / swap at a generated offset inside a generated field; alphabet biased to the grammar: digits 0-9, piece letters of both cases, '/', '-', space, a-z, A-Z, é š ♔, tab, control byte, and two dozen non-ASCII characters that the standard library's `char` predicates class with digits, letters or blanks: digits of other scripts, superscripts, fractions, letter-like numerals, the Kelvin sign, full-width forms, no-break and ideographic spaces, dashes). Oracle: never panics; a string the strict reference reader accepts as a sane position must import as exactly that position (fields 1-4, hash by the key-file combiner, legal list); any other string must be refused, or be imported as the position its most lenient documented reading (canonicalisation T) describes. About 1 case in 250 is also sent to the real binary (`position fen S`, `isready`, `show`, `quit`). Thorough adds a libFuzzer campaign on the same oracle. evaluations = strings judged. Non-trivial: a mutant the strict reader rejects and whose canonical form differs from the unedited text's; distinct by string; classes by field reported.".into()
    }

    fn assumptions(&self) -> Vec<String> {
        vec![
            "harmless leniency (e.g. `white` for the side, `K-q`, digit runs like `44`, junk in fields 5-6) is not a violation: the statement's negative half is 'never crashes, never silently imported as a different position'".into(),
            "trusted base: strict reader and canonicalisation in this harness (c17.rs), reference model for the position".into(),
        ]
    }

    fn cases(&self, tier: Tier) -> u32 {
        tier.pick(400_000, 6_000_000)
    }

    fn strategy(&self, _ctx: &Ctx) -> BoxedStrategy<FenCase> {
        let edit = (0u8..12, 0u8..9, any::<u16>(), any::<u16>()).prop_map(|(op, field, pos, ch)| Edit { op, field, pos, ch });
        let edits = prop_oneof![1 => Just(Vec::new()), 5 => vec(edit, 1..4)];
        (walk_strategy(false), 0u8..12, edits, prop::bool::weighted(0.004))
            .prop_map(|(walk, style, edits, via_uci)| FenCase::Mutant { walk, style, edits, via_uci })
            .boxed()
    }

    fn check(&self, _ctx: &Ctx, case: &FenCase, ev: &mut Ev) -> Result<(), Fail> {
        match case {
            FenCase::Text { text } => {
                self.judge_counted(text, None, ev)?;
                self.through_binary(text, ev)
            }
            FenCase::Mutant { walk, style, edits, via_uci } => {
                let Some(r) = resolve_walk(walk) else {
                    ev.skip("construction did not yield a sane position");
                    return Ok(());
                };
                let base = render(&r, *style);
                let text = apply_edits(&base, edits);
                let to_text_case = |f: Fail| {
                    let c = serde_json::to_value(FenCase::Text { text: text.clone() }).unwrap();
                    f.with_case(c)
                };
                self.judge_counted(&text, Some(&base), ev).map_err(to_text_case)?;
                if (style / 3) % 2 == 1 && edits.is_empty() {
                    ev.class("well_formed_fide_style_ep");
                }
                if *via_uci {
                    self.through_binary(&text, ev).map_err(to_text_case)?;
                }
                Ok(())
            }
        }
    }

    fn post_merge(&self, tier: Tier, seed: u64, _outdir: &str, _nshards: u32) -> (Vec<Fail>, serde_json::Value) {
        if tier != Tier::Thorough {
            return (Vec::new(), json!({}));
        }
        // coverage-guided campaign on the same oracle: 16 workers x 1.5 M executions, fresh corpora seeded with valid FENs
        let c = crate::fuzz::campaign("fen", "/verif/harness/fuzz/seeds/fen", Some("/verif/harness/fuzz/fen.dict"), 1_500_000, seed, 120, 16);
        let zob = Zob::repo();
        let mut fails = Vec::new();
        for a in &c.artifacts {
            let text = String::from_utf8_lossy(a).to_string();
            let case = serde_json::to_value(FenCase::Text { text: text.clone() }).unwrap();
            match judge(&text, &zob) {
                Err(f) => fails.push(f.with_case(case)),
                Ok(_) => fails.push(Fail::new("fuzz-target-crashed", format!("libFuzzer saved {:?} as a crash, the oracle accepts it when replayed", text)).with_case(case)),
            }
        }
        (fails, json!({"libfuzzer_fen": {"executions": c.executions, "workers": c.workers, "crash_artifacts": c.artifacts.len(), "notes": c.notes}}))
    }

    fn enumerate(&self, ctx: &Ctx, ev: &mut Ev, report: &mut dyn FnMut(FenCase, Fail)) {
        // all single-character replacements / insertions / deletions of a few fixed FENs with the whole alphabet
        let bases = [START_FEN, "r3k2r/p1ppqpb1/bn2pnp1/3PN3/1p2P3/2N2Q1p/PPPBBPPP/R3K2R w KQkq - 0 1", "8/8/8/K1Pp3r/8/8/8/4k3 w - d6 0 1", "4k3/8/8/8/2pPp3/8/8/4K3 b - d3"];
        let mut n = 0u64;
        for (bi, base) in bases.iter().enumerate() {
            if !ctx.owns(bi as u64) {
                continue;
            }
            let chars: Vec<char> = base.chars().collect();
            for at in 0..=chars.len() {
                for op in 0..3 {
                    for &ch in ALPHABET {
                        let mut s = chars.clone();
                        match op {
                            0 => s.insert(at, ch),
                            1 => {
                                if at < s.len() {
                                    s.remove(at);
                                } else {
                                    continue;
                                }
                            }
                            _ => {
                                if at < s.len() {
                                    s[at] = ch;
                                } else {
                                    continue;
                                }
                            }
                        }
                        let text: String = s.into_iter().collect();
                        n += 1;
                        if let Err(f) = self.judge_counted(&text, Some(base), ev) {
                            report(FenCase::Text { text }, f);
                            return;
                        }
                        if op == 1 {
                            break;
                        }
                    }
                }
            }
        }
        ev.class_n("exhaustive_single_edit_mutants", n);
    }
}
