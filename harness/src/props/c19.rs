//! C19: fixed-depth search is reproducible.

use crate::ev::*;
use crate::gen::*;
use crate::runner::{Ctx, Prop};
use crate::uci::{self, Session};
use proptest::collection::vec;
use proptest::prelude::*;
use serde::{Deserialize, Serialize};
use serde_json::json;

#[derive(Serialize, Deserialize, Clone, Debug)]
pub struct ScriptCase {
    /// each search: a walk (position fen … moves …) and a depth
    pub searches: Vec<(Walk, u8)>,
    /// unrelated history played before `ucinewgame` in the third run
    pub history: Vec<(Walk, u8)>,
    /// perturbation of the second run: bit0 nice, bit1 ASLR off, bit2 environment padding, bit3 pin to one CPU,
    /// bit4 freeze the process for 3.4 s (SIGSTOP / SIGCONT) right after the first `info depth` line
    pub perturb: u8,
    pub pad: u16,
    /// schedule-point delays of the second run
    pub sched: Vec<(u8, u8)>,
    /// the history before `ucinewgame` ends with `go depth 1 movetime 60` (its timer thread is still asleep
    /// when the script starts) and the first search of the script is made deep enough (depth 6) to outlast it
    #[serde(default)]
    pub timed_history: bool,
    /// the third run searches the script's own positions (one ply deeper) before the reset instead of only an
    /// unrelated history, so that anything surviving the reset concerns exactly the positions searched afterwards
    #[serde(default)]
    pub same_history: bool,
    /// additional `ucinewgame` commands sent before the final one (counters that wrap: 255, 256, 257, 65536 …)
    #[serde(default)]
    pub resets: u32,
    /// the last search before the reset: 0 nothing extra, 1 a lost position, 2 a won position, 3 a position with a mate in one (whatever a search leaves behind about its own outcome must not reach the searches after the reset)
    #[serde(default)]
    pub last_before_reset: u8,
}

/// (lost, won, mate in one) for the side to move; validated by `selftest`
pub const OUTCOMES: [&str; 3] = ["6k1/8/8/8/8/8/q7/6K1 w - - 0 1", "6k1/8/8/8/8/8/1Q6/6K1 w - - 0 1", "6k1/5ppp/8/8/8/8/8/R5K1 w - - 0 1"];

pub struct C19;

fn script_lines(searches: &[(Walk, u8)], cap: u8) -> Option<(Vec<(String, String)>, bool)> {
    let mut v = Vec::new();
    let mut nontrivial = false;
    for (w, d) in searches {
        let r = resolve_walk(w)?;
        if !search_friendly(&r.end) {
            return None;
        }
        let d = (*d).clamp(1, cap);
        if d >= 3 && r.end.legal().len() >= 2 {
            nontrivial = true;
        }
        v.push((format!("position fen {} moves {}", r.start.fen6(), moves_text(&r.moves)), format!("go depth {}", d)));
    }
    Some((v, nontrivial))
}

/// Run the script; the transcript is every stdout line printed between a `go` and the `readyok` that
/// follows its `wait`.
fn transcript(sess: &mut Session, script: &[(String, String)]) -> Result<Vec<String>, String> {
    transcript_frozen(sess, script, 0)
}

/// `freeze_ms` > 0: the process is stopped (SIGSTOP) for that long right after the first `info depth`
/// line of the first search - wall-clock time passes, the search does not
fn transcript_frozen(sess: &mut Session, script: &[(String, String)], freeze_ms: u64) -> Result<Vec<String>, String> {
    let mut all = Vec::new();
    for (k, (pos, go)) in script.iter().enumerate() {
        sess.send(pos);
        sess.send(go);
        let mut head = Vec::new();
        if k == 0 && freeze_ms > 0 {
            if let Some(ls) = sess.read_until(|l| l.starts_with("info depth"), 60_000) {
                head = ls;
                sess.freeze(freeze_ms);
            }
        }
        sess.send("wait");
        sess.send("isready");
        match sess.read_until(|l| uci::readyok(l), 60_000) {
            Some(mut ls) => {
                ls.pop();
                all.push(format!("# {} ; {}", pos, go));
                all.extend(head);
                all.extend(ls);
            }
            None => return Err(format!("no readyok within 60 s after {:?} {:?}: {}", pos, go, sess.transcript_tail(5))),
        }
    }
    Ok(all)
}

impl Prop for C19 {
    type Case = ScriptCase;

    fn id(&self) -> &'static str {
        "C19"
    }

    fn rule(&self) -> String {
        "Cases: a script of 1-4 (`position fen … moves …`, `go depth 1-5`, `wait`) steps on generated positions, run three ways against the real binary: (A) fresh process; (B) fresh process under a generated perturbation - `nice -n 15`, ASLR disabled (`setarch -R`), 0-4 kB of environment padding (moves stack and heap layout), pinned to one CPU (`taskset`), schedule-point delays 0/20/100 ms, the process frozen for 3.4 s in the middle of the first search (SIGSTOP/SIGCONT: wall-clock time passes, the search does not), while up to 7 sibling shards load the machine; (C) a process that first searches a generated unrelated history (one time in five ending with `go depth 1 movetime 60`, whose timer is still pending while the script's first search, then raised to depth 6, runs), then `ucinewgame`, then the script; one walk in four ends in 5-9 take-backs (a root showing the pattern of the repetition filter); half of the histories end with a depth-2 search of a lost, a won or a mate-in-one root; two times in five the history also searches the script's own positions one ply deeper, and two times in seven the reset is preceded by 1-65537 further `ucinewgame` commands (values around 128, 256, 512, 65536, where a wrapping generation counter would bring entries back to life). Oracle: the three transcripts (every `info` line and `bestmove`) are byte-identical. Four fixed DEEP scripts (depth 7-9, tables of 10^5 entries and more) are run the same three ways in every tier. evaluations = script runs compared (3 per case). Non-trivial script: contains a search of depth >= 3 on a root with at least two legal moves; distinct by script.".into()
    }

    fn assumptions(&self) -> Vec<String> {
        vec!["perturbations of timing, load and memory layout are sampled; they cannot be enumerated".into()]
    }

    fn nshards(&self, _tier: Tier) -> u32 {
        8
    }

    fn cases(&self, tier: Tier) -> u32 {
        tier.pick(400, 6_000)
    }

    fn shard_timeout_s(&self, tier: Tier) -> u64 {
        tier.pick(1200, 9000)
    }

    fn always_inflight(&self) -> bool {
        true
    }

    fn max_shrink_iters(&self) -> u32 {
        80
    }

    fn strategy(&self, _ctx: &Ctx) -> BoxedStrategy<ScriptCase> {
        // one walk in four ends with 5-9 take-backs (both sides moving a piece out and back): the root then shows the
        // pattern the root repetition filter looks for
        let search = || {
            (walk_strategy(false), prop_oneof![3 => Just(0usize), 1 => 5usize..10], prop_oneof![1 => 1u8..3, 3 => 3u8..5, 1 => Just(5u8)]).prop_map(|(mut walk, undo, depth)| {
                for _ in 0..undo {
                    walk.picks.push(Pick { kind: PK_UNDO, idx: 0 });
                }
                (walk, depth)
            })
        };
        let resets = prop_oneof![5 => Just(0u32), 2 => prop::sample::select(vec![1u32, 2, 3, 127, 128, 255, 256, 257, 511, 512, 1024, 65535, 65536, 65537])];
        (vec(search(), 1..5), vec(search(), 1..4), prop_oneof![9 => 0u8..16, 1 => 16u8..32], 0u16..4096, vec((0u8..9, 0u8..3), 0..4), prop::bool::weighted(0.2), prop::bool::weighted(0.4), resets, prop_oneof![1 => Just(0u8), 1 => 1u8..4])
            .prop_map(|(searches, history, perturb, pad, sched, timed_history, same_history, resets, last_before_reset)| ScriptCase { searches, history, perturb, pad, sched, timed_history, same_history, resets, last_before_reset })
            .boxed()
    }

    fn enumerate(&self, ctx: &Ctx, ev: &mut Ev, report: &mut dyn FnMut(ScriptCase, Fail)) {
        // a few DEEP searches (tables of 10^5 entries and more, seconds of search): run fresh, run perturbed
        // (ASLR off + padding + frozen mid-search), run after a history + ucinewgame
        let deep: [(u16, u8); 4] = [(0, 9), (1, 7), (4, 7), (5, 7)];
        for (i, (root, depth)) in deep.iter().enumerate() {
            if !ctx.owns(i as u64) {
                continue;
            }
            let case = ScriptCase {
                searches: vec![(Walk { start: Start::Curated(*root), picks: vec![] }, *depth)],
                history: vec![(Walk { start: Start::Curated(3), picks: vec![] }, 4)],
                perturb: 2 | 4 | 16,
                pad: 3000,
                sched: vec![],
                timed_history: false,
                same_history: i % 2 == 0,
                resets: [256, 0, 65536, 0][i],
                last_before_reset: i as u8,
            };
            ctx.note_inflight("C19", &case);
            ev.class("deep_scripts");
            if let Err(f) = self.check_with_depth_cap(ctx, &case, ev, 9) {
                report(case, f);
                return;
            }
        }
    }

    fn check(&self, ctx: &Ctx, case: &ScriptCase, ev: &mut Ev) -> Result<(), Fail> {
        self.check_with_depth_cap(ctx, case, ev, 5)
    }
}

impl C19 {
    fn check_with_depth_cap(&self, _ctx: &Ctx, case: &ScriptCase, ev: &mut Ev, cap: u8) -> Result<(), Fail> {
        let Some((mut script, nontrivial)) = script_lines(&case.searches, cap) else {
            ev.skip("construction did not yield a sane position");
            return Ok(());
        };
        if case.timed_history {
            script[0].1 = "go depth 6".to_string();
        }
        let history = script_lines(&case.history, 5).map(|x| x.0).unwrap_or_default();
        // A: plain
        let mut a = Session::start(&[]).map_err(|e| Fail::new("harness", e))?;
        let ta = match transcript(&mut a, &script) {
            Ok(t) => t,
            Err(e) => {
                ev.inconclusive("script did not finish within the time limit");
                let _ = e;
                return Ok(());
            }
        };
        a.quit();
        // B: perturbed
        let mut env: Vec<(String, String)> = Vec::new();
        if case.perturb & 4 != 0 {
            env.push(("VERIF_PADDING".to_string(), "x".repeat(case.pad as usize)));
        }
        let mut sd = Vec::new();
        for &(pt, cls) in &case.sched {
            let ms = [0, 20, 100][cls as usize % 3];
            if ms > 0 {
                sd.push(format!("{}={}", crate::props::c14::POINTS[pt as usize % 9], ms));
            }
        }
        if !sd.is_empty() {
            env.push(("VERIF_SCHED".to_string(), sd.join(",")));
        }
        let mut argv: Vec<String> = Vec::new();
        if case.perturb & 1 != 0 {
            argv.extend(["nice".into(), "-n".into(), "15".into()]);
        }
        if case.perturb & 2 != 0 {
            argv.extend(["setarch".into(), "x86_64".into(), "-R".into()]);
        }
        if case.perturb & 8 != 0 {
            argv.extend(["taskset".into(), "-c".into(), "0".into()]);
        }
        argv.push(uci::ENGINE.to_string());
        let args: Vec<&str> = argv[1..].iter().map(|s| s.as_str()).collect();
        let mut b = Session::start_bin(&argv[0], &args, &env).map_err(|e| Fail::new("harness", e))?;
        let freeze_ms = if case.perturb & 16 != 0 { 3_400 } else { 0 };
        let tb = match transcript_frozen(&mut b, &script, freeze_ms) {
            Ok(t) => t,
            Err(_) => {
                ev.inconclusive("perturbed script run did not finish within the time limit");
                return Ok(());
            }
        };
        b.quit();
        // C: after an unrelated history and ucinewgame
        let mut c = Session::start(&[]).map_err(|e| Fail::new("harness", e))?;
        if transcript(&mut c, &history).is_err() {
            ev.inconclusive("history run did not finish within the time limit");
            return Ok(());
        }
        if case.same_history {
            // the script's own positions, one ply deeper (capped), so that deeper entries for them exist before the reset
            let deeper: Vec<(String, String)> = script
                .iter()
                .map(|(p, g)| {
                    let d: u8 = g.rsplit(' ').next().and_then(|x| x.parse().ok()).unwrap_or(1);
                    (p.clone(), format!("go depth {}", (d + 1).min(cap.max(6))))
                })
                .collect();
            if transcript(&mut c, &deeper).is_err() {
                ev.inconclusive("history run did not finish within the time limit");
                return Ok(());
            }
            ev.class("histories_that_search_the_scripts_own_positions_deeper");
        }
        if case.timed_history {
            c.send("position startpos");
            c.send("go depth 1 movetime 60");
            c.send("wait");
            c.send("isready");
            if c.read_until(|l| uci::readyok(l), 30_000).is_none() {
                ev.inconclusive("history run did not finish within the time limit");
                return Ok(());
            }
            ev.class("histories_ending_with_a_pending_timer");
        }
        if case.last_before_reset % 4 != 0 {
            let fen = OUTCOMES[(case.last_before_reset % 4 - 1) as usize];
            let last = vec![(format!("position fen {}", fen), "go depth 2".to_string())];
            if transcript(&mut c, &last).is_err() {
                ev.inconclusive("history run did not finish within the time limit");
                return Ok(());
            }
            ev.class("histories_whose_last_search_is_a_lost_won_or_mated_root");
        }
        if case.resets > 0 {
            for k in 0..case.resets {
                c.send("ucinewgame");
                if k % 4096 == 4095 {
                    c.send("isready");
                    if c.read_until(|l| uci::readyok(l), 30_000).is_none() {
                        ev.inconclusive("history run did not finish within the time limit");
                        return Ok(());
                    }
                }
            }
            ev.class(if case.resets >= 255 { "histories_with_255_or_more_resets" } else { "histories_with_several_resets" });
        }
        c.send("ucinewgame");
        let tc = match transcript(&mut c, &script) {
            Ok(t) => t,
            Err(_) => {
                ev.inconclusive("script after ucinewgame did not finish within the time limit");
                return Ok(());
            }
        };
        c.quit();
        ev.evals(3);
        let first_diff = |x: &[String], y: &[String]| -> Option<String> {
            for i in 0..x.len().max(y.len()) {
                if x.get(i) != y.get(i) {
                    return Some(format!("line {}: {:?} vs {:?}", i, x.get(i), y.get(i)));
                }
            }
            None
        };
        if let Some(d) = first_diff(&ta, &tb) {
            return Err(Fail::new("transcript-differs-under-perturbation", format!("script {:?}: plain run and run under {:?} {:?} differ at {}", script, &argv[..argv.len() - 1], env.iter().map(|e| &e.0).collect::<Vec<_>>(), d)));
        }
        if let Some(d) = first_diff(&ta, &tc) {
            return Err(Fail::new("transcript-differs-after-ucinewgame", format!("script {:?}: fresh run and run after history {:?} + ucinewgame differ at {}", script, history, d)));
        }
        ev.class(if case.perturb & 1 != 0 { "runs_with_nice" } else { "runs_without_nice" });
        if case.perturb & 2 != 0 {
            ev.class("runs_with_aslr_off");
        }
        if case.perturb & 4 != 0 {
            ev.class("runs_with_environment_padding");
        }
        if case.perturb & 8 != 0 {
            ev.class("runs_pinned_to_one_cpu");
        }
        if !sd.is_empty() {
            ev.class("runs_with_schedule_delays");
        }
        if freeze_ms > 0 {
            ev.class("runs_frozen_for_3_4_s_mid_search");
        }
        if nontrivial {
            ev.nontrivial(fp_bytes(format!("{:?}", script).as_bytes()), || json!({"script": script, "history_before_ucinewgame": history, "transcript_lines": ta.len()}));
        }
        Ok(())
    }
}
