//! C07: a stop request at any moment still yields a legal move, promptly.

use crate::eng::{self, Game};
use crate::ev::*;
use crate::gen::*;
use crate::refchess::*;
use crate::runner::{Ctx, Prop};
use crate::srch;
use crate::uci::{self, Session};
use proptest::prelude::*;
use serde::{Deserialize, Serialize};
use serde_json::json;
use std::sync::atomic::Ordering::Relaxed;

#[derive(Serialize, Deserialize, Clone, Debug)]
pub enum StopCase {
    /// in-process sweep: the stop flag is flipped by the node-entry hook after exactly N polls, for
    /// N = 0..=64 and then geometrically up to the polls of a full search of `depth`
    Sweep { walk: Walk, depth: u8, warm: bool },
    /// one stop index (shrunk form)
    One { fen: String, depth: u8, n: u64 },
    /// the real binary: mode 0 `go infinite` + immediate `stop`; 1 `go movetime t`; 2 env VERIF_STOP_AFTER_POLLS=n + `go depth 4`
    Uci { walk: Walk, mode: u8, n: u16 },
    /// wall-clock latency of `stop` through the real binary on a given position: `go depth d`, `stop` after
    /// `stop_after_ms`, the answer must arrive within 10 s (a generous bound: the property says "promptly")
    Latency { fen: String, depth: u8, stop_after_ms: u16 },
    /// a game record that ends in a forced repetition: after `start` + `moves` the side to move has exactly one legal
    /// move, and it is the move the root repetition filter removes. Sweep of stop instants as in `Sweep`, and
    /// (`binary`) `go infinite` + `stop` / `go movetime 1` through the real executable.
    Cycle { start: String, moves: Vec<String>, depth: u8, warm: bool, binary: bool },
    /// self-play (`rustybait auto <millis>`) from `fen` with a thinking time too short to finish depth 1: every search
    /// is ended by the timer almost at once, and the game must still go on until the position has no legal move or
    /// the length guard ends it - never stop earlier because a stopped search had "no move"
    AutoPlay { fen: String, millis: u8 },
    /// a walk whose picks prefer checks and captures; at every position along it with at most three legal moves
    /// (forced recaptures, single flights, only an en-passant capture or a promotion left …) the earliest stop instants
    /// are tried: whatever the fallback choice looks at, it must find one of the few legal moves
    FewMoves { walk: Walk },
    /// a tiny position searched as deep as it goes, then the same position at the end of a record of `plies` shuffle
    /// plies (where the table remembers more depth than the record leaves room for): `go infinite` + `stop`, `go
    /// movetime 1` and an exhausted clock must each be answered with a legal move
    DeepThenStop { fen: String, plies: u16 },
    /// EVERY stop instant 0..=upto of a deeper search (depth 6-8) of a small blocked position, where from the fourth
    /// iteration on most nodes are answered by the table: the instants at which the flag flips on a node that has a
    /// usable table entry are frequent there and rare in the shallow sweeps
    Dense { fen: String, depth: u8, upto: u32 },
}

pub struct C07;

/// `n` = number of node-entry polls after which the hook flips the flag; -1 = never; BEFORE_START = the flag is
/// already down when the search begins
const BEFORE_START: i64 = -2;

fn stopped_search(g: &Game, table: &mut srch::TranspositionTable, depth: u8, n: i64) -> Result<(Option<String>, u64, u64), String> {
    srch::hooks::reset(if n == BEFORE_START { -1 } else { n }, false);
    let out = srch::run_search_flag(g, table, Some(depth), 20_000, n != BEFORE_START);
    let polls = srch::hooks::POLLS.load(Relaxed);
    let after = srch::hooks::POLLS_AFTER_STOP.load(Relaxed);
    srch::hooks::reset(-1, false);
    if let Some(p) = out.panicked {
        return Err(p);
    }
    if out.watchdog_fired {
        return Err("search still running 20 s after the stop flag was due".into());
    }
    Ok((out.best, polls, after))
}

impl C07 {
    fn one(&self, p: &Pos, g: &Game, base: &srch::TranspositionTable, depth: u8, n: u64, d1_polls: u64, ev: &mut Ev) -> Result<(), Fail> {
        let legal: Vec<String> = p.legal().iter().map(|m| m.uci()).collect();
        let mut table = base.clone();
        let (best, _polls, after) = stopped_search(g, &mut table, depth, n as i64).map_err(|e| Fail::new("panic", format!("{} stop after {} polls: {}", p.fen4(), n, e)))?;
        ev.eval();
        let case = || serde_json::to_value(StopCase::One { fen: p.fen6(), depth, n }).unwrap();
        match &best {
            None => {
                if !legal.is_empty() {
                    return Err(Fail::new("stopped-search-returns-no-move", format!("{} : stop flag flipped after {} polls (depth-1 needs {}), search returned no move although {} are legal", p.fen4(), n, d1_polls, legal.len())).with_case(case()));
                }
                ev.class("dead_root_correctly_none");
            }
            Some(m) => {
                if !legal.contains(m) {
                    return Err(Fail::new("stopped-search-returns-illegal-move", format!("{} : stop after {} polls returned {} ; legal {:?}", p.fen4(), n, m, legal)).with_case(case()));
                }
            }
        }
        if after != 0 {
            return Err(Fail::new("nodes-expanded-after-stop", format!("{} : {} further node entries after the flag was flipped at poll {}", p.fen4(), after, n)).with_case(case()));
        }
        // the unwinding must leave nothing behind that makes the NEXT answer wrong: with the table the stopped
        // search left, every cached child of the root is searched as a root of its own (sampled stop instants)
        if n % 8 == 3 || n == 0 {
            let mut probes = 0;
            for m in p.legal() {
                let q = p.make(m);
                if !search_friendly(&q) {
                    continue;
                }
                let mut g2 = g.clone();
                let Some(em) = eng::find_legal(&mut g2, &m.uci()) else { continue };
                g2.push_history(em);
                if !table.contains_key(&g2.hash()) {
                    continue;
                }
                probes += 1;
                srch::hooks::reset(-1, false);
                let out = srch::run_search(&g2, &mut table, Some(1 + (probes % 2) as u8), 20_000);
                let legal2: Vec<String> = q.legal().iter().map(|x| x.uci()).collect();
                let ok = match &out.best {
                    None => legal2.is_empty(),
                    Some(b) => legal2.contains(b),
                };
                ev.eval();
                if out.panicked.is_some() || !ok {
                    return Err(Fail::new(
                        "stopped-search-leaves-state-that-makes-the-next-answer-illegal",
                        format!("{} : after a depth-{} search stopped at poll {}, `position … moves {}` + `go depth {}` answers {:?} (panic {:?}); legal there: {:?}", p.fen4(), depth, n, m.uci(), 1 + (probes % 2), out.best, out.panicked, legal2),
                    )
                    .with_case(case()));
                }
                if probes >= 4 {
                    break;
                }
            }
            ev.class_n("follow_up_searches_of_cached_children", probes as u64);
        }
        if n < d1_polls {
            ev.class("stop_before_first_iteration_completes");
            ev.nontrivial(mix(fp_pos(p) ^ mix(n)), || json!({"position": p.fen4(), "stop_after_polls": n, "polls_for_depth_1": d1_polls, "answer": best}));
        }
        Ok(())
    }

    /// all stop instants 0..=64 and a geometric sample beyond, on the game `start` + `moves` (moves in the record)
    fn sweep(&self, start: &Pos, moves: &[RMove], depth: u8, warm: bool, ev: &mut Ev) -> Result<(), Fail> {
        let mut p = start.clone();
        // the game as the UCI layer would hold it: start position + moves in the record
        let mut g = Game::new(&start.fen6()).map_err(|e| Fail::new("sane-position-not-importable", e.to_string()))?;
        for m in moves {
            let Some(em) = eng::find_legal(&mut g, &m.uci()) else {
                return Err(Fail::new("legal-move-not-offered", format!("{} in {}", m.uci(), g.fen())));
            };
            g.push_history(em);
            p = p.make(*m);
        }
        let p = &p;
        let mut base = srch::new_table();
        if warm {
            let _ = stopped_search(&g, &mut base, 2, -1).map_err(|e| Fail::new("panic", e))?;
            ev.class("warm_table_sweeps");
        }
        // counting runs: polls for depth 1 and for the full depth
        let mut t = base.clone();
        let (_, d1, _) = stopped_search(&g, &mut t, 1, -1).map_err(|e| Fail::new("panic", e))?;
        let mut t = base.clone();
        let (_, total, _) = stopped_search(&g, &mut t, depth, -1).map_err(|e| Fail::new("panic", e))?;
        let mut ns: Vec<u64> = (0..=64).collect();
        let mut x = 65f64;
        while (x as u64) < total + 3 && ns.len() < 120 {
            ns.push(x as u64);
            x *= 1.4;
        }
        ev.class("positions_swept");
        // the stop that is there before the search starts: with the table as it is, and with a table that already
        // holds a full-depth result for this very root (the driver then starts deepening above depth 1)
        let legal: Vec<String> = p.legal().iter().map(|m| m.uci()).collect();
        for deep_warm in [false, true] {
            let mut t = base.clone();
            if deep_warm {
                let _ = stopped_search(&g, &mut t, depth, -1).map_err(|e| Fail::new("panic", e))?;
            }
            let (best, _, after) = stopped_search(&g, &mut t, depth, BEFORE_START).map_err(|e| Fail::new("panic", format!("{} stop before the search starts: {}", p.fen4(), e)))?;
            ev.eval();
            ev.class(if deep_warm { "stop_before_the_search_starts_root_cached_at_full_depth" } else { "stop_before_the_search_starts" });
            let bad = match &best {
                None => !legal.is_empty(),
                Some(m) => !legal.contains(m),
            };
            if bad || after != 0 {
                let rec = StopCase::Cycle { start: start.fen6(), moves: moves.iter().map(|m| m.uci()).collect(), depth, warm, binary: false };
                let sig = if after != 0 { "nodes-expanded-after-stop" } else if best.is_none() { "stopped-search-returns-no-move" } else { "stopped-search-returns-illegal-move" };
                return Err(Fail::new(sig, format!("{} : stop flag already down when the depth-{} search starts (root cached at full depth: {}): answer {:?}, {} node entries; legal {:?}", p.fen4(), depth, deep_warm, best, after, legal)).with_case(serde_json::to_value(rec).unwrap()));
            }
        }
        for n in ns {
            if let Err(f) = self.one(p, &g, &base, depth, n, d1, ev) {
                // a failure that may depend on the game record is replayed with the record, not from the bare position
                return Err(if moves.is_empty() {
                    f
                } else {
                    f.with_case(serde_json::to_value(StopCase::Cycle { start: start.fen6(), moves: moves.iter().map(|m| m.uci()).collect(), depth, warm, binary: false }).unwrap())
                });
            }
        }
        Ok(())
    }

    fn uci(&self, walk: &Walk, mode: u8, n: u16, ev: &mut Ev) -> Result<(), Fail> {
        let Some(r) = resolve_walk(walk) else {
            ev.skip("construction did not yield a sane position");
            return Ok(());
        };
        let p = &r.end;
        if !search_friendly(p) {
            ev.skip(SKIP_HEAVY);
            return Ok(());
        }
        let legal: Vec<String> = p.legal().iter().map(|m| m.uci()).collect();
        let mut env = Vec::new();
        let go = match mode % 3 {
            0 => "go infinite".to_string(),
            1 => format!("go movetime {}", n % 11),
            _ => {
                env.push(("VERIF_STOP_AFTER_POLLS".to_string(), (n % 300).to_string()));
                "go depth 4".to_string()
            }
        };
        let mut sess = Session::start(&env).map_err(|e| Fail::new("harness", e))?;
        if mode % 3 != 2 && n % 2 == 1 {
            // the same root searched to depth 3 before, in the same session: the stopped search finds its root cached
            sess.send(&format!("position fen {} moves {}", r.start.fen6(), moves_text(&r.moves)));
            sess.send("go depth 3");
            sess.send("wait");
            sess.send("isready");
            if sess.read_until(|l| uci::readyok(l), 60_000).is_none() {
                sess.kill();
                ev.inconclusive("warming search did not finish within 60 s");
                return Ok(());
            }
            ev.class("uci_stopped_searches_with_the_root_cached");
        }
        sess.send(&format!("position fen {} moves {}", r.start.fen6(), moves_text(&r.moves)));
        sess.send(&go);
        if mode % 3 == 0 {
            sess.send("stop");
        }
        let t0 = std::time::Instant::now();
        let out = sess.read_until(|l| l.starts_with("bestmove"), 8000);
        ev.eval();
        ev.class(match mode % 3 {
            0 => "uci_go_infinite_then_stop",
            1 => "uci_go_movetime_0_to_10",
            _ => "uci_stop_after_n_polls",
        });
        let Some(lines) = out else {
            let tail = sess.transcript_tail(8);
            sess.kill();
            return Err(Fail::new("no-bestmove-after-stop", format!("{} + {:?}: no bestmove within 8 s ({})", p.fen4(), go, tail)));
        };
        let waited = t0.elapsed().as_millis();
        let bm = uci::bestmove_of(&lines).unwrap_or_default();
        if legal.is_empty() {
            if bm != "none" {
                sess.kill();
                return Err(Fail::new("move-announced-in-dead-position", format!("{} : bestmove {}", p.fen4(), bm)));
            }
        } else if !legal.contains(&bm) {
            sess.kill();
            let sig = if bm == "none" { "stopped-search-returns-no-move" } else { "stopped-search-returns-illegal-move" };
            return Err(Fail::new(sig, format!("{} + {:?}: bestmove {} ; legal {:?}", p.fen4(), go, bm, legal)));
        }
        if waited > 3000 {
            ev.inconclusive("bestmove after stop took more than 3 s (promptness not judged on wall clock)");
        }
        ev.nontrivial(mix(fp_pos(p) ^ mix(0xC07 + (mode % 3) as u64 * 1000 + n as u64)), || json!({"position": p.fen4(), "go": go, "bestmove": bm}));
        sess.quit();
        Ok(())
    }
}

/// (position, depth): ordinary and promotion-rich boards that must obey `stop` at once, and the extreme
/// all-pawns-promoted board on which the unpolled capture search runs for minutes (known finding)
pub const LATENCY_CASES: &[(&str, u8)] = &[
    ("rnbqkbnr/pppppppp/8/8/8/8/PPPPPPPP/RNBQKBNR w KQkq - 0 1", 30),
    ("r3k2r/p1ppqpb1/bn2pnp1/3PN3/1p2P3/2N2Q1p/PPPBBPPP/R3K2R w KQkq - 0 1", 30),
    ("3qkq2/2q3q1/8/2Q3Q1/8/1q5q/2Q3Q1/3QKQ2 w - - 0 1", 30),
    ("q1q1k1q1/1q1q1q1q/8/8/8/8/1Q1Q1Q1Q/Q1Q1K1Q1 w - - 0 1", 3),
    ("qqqqkqqq/qq6/8/8/8/8/QQ6/QQQQKQQQ w - - 0 1", 2),
];

impl Prop for C07 {
    type Case = StopCase;

    fn enumerate(&self, ctx: &Ctx, ev: &mut Ev, report: &mut dyn FnMut(StopCase, Fail)) {
        for (i, (fen, depth)) in LATENCY_CASES.iter().enumerate() {
            if !ctx.owns(i as u64) {
                continue;
            }
            let case = StopCase::Latency { fen: fen.to_string(), depth: *depth, stop_after_ms: 150 };
            ctx.note_inflight("C07", &case);
            if let Err(f) = self.check(ctx, &case, ev) {
                report(case, f);
            }
        }
        // dense sweeps: every instant of a deeper search of small blocked positions
        let mut k4 = 3000u64;
        for (fen, depth) in [
            ("8/8/8/p1p1p1p1/P1P1P1P1/8/4k3/K7 w - - 0 1", 7u8),
            ("kb6/p1p5/P1P5/8/8/8/8/K7 w - - 0 1", 8),
            ("8/8/4k3/8/8/3K4/4P3/8 w - - 0 1", 7),
            ("8/8/8/8/8/1k6/p7/K7 b - - 0 1", 8),
            ("8/pp3pk1/2p3p1/8/3P4/2P3P1/P4PK1/8 w - - 0 30", 6),
            ("4k3/8/8/8/8/8/4P3/4K3 w - - 0 1", 7),
        ] {
            k4 += 1;
            if !ctx.owns(k4) {
                continue;
            }
            let case = StopCase::Dense { fen: fen.to_string(), depth, upto: 1500 };
            ctx.note_inflight("C07", &case);
            if let Err(f) = self.check(ctx, &case, ev) {
                report(case, f);
            }
        }
        // deep cache, then a long record, then stopped / starved searches
        let mut k3 = 2000u64;
        for fen in ["8/8/4k3/8/8/3K4/8/8 w - - 0 1", "8/8/8/4k3/8/8/4K3/8 w - - 0 1", "6k1/8/5K2/7P/8/8/8/8 w - - 0 1"] {
            for plies in [372u16, 392, 396] {
                k3 += 1;
                if !ctx.owns(k3) {
                    continue;
                }
                let case = StopCase::DeepThenStop { fen: fen.to_string(), plies };
                ctx.note_inflight("C07", &case);
                if let Err(f) = self.check(ctx, &case, ev) {
                    report(case, f);
                }
            }
        }
        // self-play with next to no thinking time
        let mut k2 = 1000u64;
        for fen in ["rnbqkbnr/pppppppp/8/8/8/8/PPPPPPPP/RNBQKBNR w KQkq - 0 1", "8/8/8/8/8/4k3/4p3/4K3 b - - 0 1", "6k1/5ppp/8/8/8/8/r4PPP/1R4K1 w - - 0 1", "8/5k2/8/8/8/2Q5/2K5/8 w - - 0 1"] {
            for millis in [0u8, 1, 2] {
                k2 += 1;
                if !ctx.owns(k2) {
                    continue;
                }
                let case = StopCase::AutoPlay { fen: fen.to_string(), millis };
                ctx.note_inflight("C07", &case);
                if let Err(f) = self.check(ctx, &case, ev) {
                    report(case, f);
                }
            }
        }
        // records ending in a forced repetition (perpetual-check roots and their colour mirrors, with and without one
        // earlier turn of the cycle in the record)
        let mut k = LATENCY_CASES.len() as u64;
        for root in crate::props::hist::PERPETUAL {
            for mirrored in [false, true] {
                let Ok(p0) = Pos::from_fen(root) else { continue };
                let st = if mirrored { p0.mirror() } else { p0 };
                let Some(c) = forced_cycle(&st) else { continue };
                for pre in [false, true] {
                    k += 1;
                    if !ctx.owns(k) {
                        continue;
                    }
                    let mut moves: Vec<String> = Vec::new();
                    if pre {
                        moves.extend(c[..4].iter().map(|m| m.uci()));
                    }
                    moves.extend(c.iter().map(|m| m.uci()));
                    for (depth, warm) in [(2u8, false), (3, true), (4, false)] {
                        let case = StopCase::Cycle { start: st.fen6(), moves: moves.clone(), depth, warm, binary: depth == 3 };
                        ctx.note_inflight("C07", &case);
                        if let Err(f) = self.check(ctx, &case, ev) {
                            report(case, f);
                        }
                    }
                }
            }
        }
    }

    fn id(&self) -> &'static str {
        "C07"
    }

    fn rule(&self) -> String {
        "Cases: end positions of generated walks, fresh or warm table (warm = after a depth-2 search of the same position). In-process the node-entry hook flips the stop flag after exactly N polls, N enumerated exhaustively 0..=64 and then geometrically (x1.4) up to the poll count of the full depth-limited search (depth 3-4), one search per N: the result must be a move legal in the reference model whenever the model has one (None only for checkmate/stalemate roots), and the hook must count 0 node entries after the flip; for a sample of stop instants every cached child of the root is then searched (depth 1-2) with the table the stopped search left behind and must get a legal answer too. Twelve game records that end in a forced repetition (three perpetual-check roots and their colour mirrors, the cycle a b a' b' a played once or after one earlier turn, so that the side to move has a single legal move and it is the one the root repetition filter removes) get the same sweep at depths 2-4 and, through the real binary, `go infinite` + `stop`, `go movetime 0/1` and an exhausted clock. Nine cases in ten are (cheap) walks whose picks prefer checks and captures: at every position along them with one to three legal moves (forced recaptures, single flights, only a capture or a promotion left) the stop before the start and the stop at polls 0, 1, 2, 3 and 6 of a depth-2 search must each yield one of those moves. Six small blocked positions are searched to depth 6-8 with EVERY stop instant from 0 to 1500 (there most nodes are answered by the table from the fourth iteration on, so that a stop landing on a table hit is frequent). Nine sessions search a tiny position to the depth ceiling and then, at the end of a 372-396-ply record of the same position, require a legal answer to `go infinite` + `stop`, `go movetime 0/1` and an exhausted clock. Twelve self-play runs (`rustybait auto 0|1|2` from four start positions: every search is ended by the timer almost at once) must go on until the last printed position has no legal move or the length guard ends the game. Five fixed boards (start, Kiwipete, 5+5 queens, 8+8 queens, 9+9 queens) get `go depth d`, `stop` after 150 ms through the real binary and must answer within 10 s. Every sweep also contains the stop that is there before the search starts (flag already down), once with the table as it is and once with the root cached at full depth. About 1 case in 12 drives the real binary (half of them after a depth-3 search of the same root in the same session): `go infinite` immediately followed by `stop`, `go movetime 0..10`, or VERIF_STOP_AFTER_POLLS=N with `go depth 4`; `bestmove none` with legal moves available is the violation. evaluations = stopped searches. Non-trivial: N smaller than the polls a depth-1 iteration needs (the window in which no iteration has completed), and every binary session; distinct by (position, N).".into()
    }

    fn assumptions(&self) -> Vec<String> {
        vec![
            "the instants at which the flag can flip are the node-entry polls (the only place the search reads it besides the top of each iteration); all of them up to 64 and a geometric sample beyond are tried".into(),
            "wall-clock promptness is not asserted, only 'no further node entry after the flip'".into(),
        ]
    }

    fn cases(&self, tier: Tier) -> u32 {
        tier.pick(17_600, 330_000)
    }

    fn shard_timeout_s(&self, tier: Tier) -> u64 {
        tier.pick(900, 7200)
    }

    fn hang_is_violation(&self) -> bool {
        true
    }

    fn strategy(&self, _ctx: &Ctx) -> BoxedStrategy<StopCase> {
        prop_oneof![
            11 => (walk_strategy(false), 3u8..5, any::<bool>()).prop_map(|(walk, depth, warm)| StopCase::Sweep { walk, depth, warm }),
            1 => (walk_strategy(false), 0u8..3, any::<u16>()).prop_map(|(walk, mode, n)| StopCase::Uci { walk, mode, n }),
            120 => (start_strategy(), proptest::collection::vec((prop_oneof![5 => Just(PK_CHECK), 3 => Just(PK_CAPTURE), 1 => Just(PK_PROMO), 1 => Just(PK_EP), 2 => Just(PK_ANY)], any::<u16>()).prop_map(|(kind, idx)| Pick { kind, idx }), 4..60))
                .prop_map(|(start, picks)| StopCase::FewMoves { walk: Walk { start, picks } }),
        ]
        .boxed()
    }

    fn check(&self, _ctx: &Ctx, case: &StopCase, ev: &mut Ev) -> Result<(), Fail> {
        match case {
            StopCase::Uci { walk, mode, n } => self.uci(walk, *mode, *n, ev),
            StopCase::Latency { fen, depth, stop_after_ms } => {
                let p = Pos::from_fen(fen).map_err(|e| Fail::new("harness", e))?;
                let legal: Vec<String> = p.legal().iter().map(|m| m.uci()).collect();
                let heavy = p.b.iter().filter(|c| b"QRqr".contains(c)).count();
                let mut sess = Session::start(&[]).map_err(|e| Fail::new("harness", e))?;
                sess.send(&format!("position fen {}", fen));
                sess.send(&format!("go depth {}", depth));
                let early = sess.drain(*stop_after_ms as u64);
                ev.eval();
                ev.class("uci_stop_latency_cases");
                if early.iter().any(|l| l.starts_with("bestmove")) {
                    ev.class("uci_stop_latency_search_ended_before_the_stop");
                    sess.quit();
                    return Ok(());
                }
                sess.send("stop");
                let t0 = std::time::Instant::now();
                match sess.read_until(|l| l.starts_with("bestmove"), 10_000) {
                    Some(lines) => {
                        let bm = uci::bestmove_of(&lines).unwrap_or_default();
                        if !legal.contains(&bm) {
                            sess.kill();
                            return Err(Fail::new(if bm == "none" { "stopped-search-returns-no-move" } else { "stopped-search-returns-illegal-move" }, format!("{} : stop after {} ms of `go depth {}` answered {}", fen, stop_after_ms, depth, bm)));
                        }
                        ev.nontrivial(mix(fp_pos(&p) ^ 0x1A7 ^ *stop_after_ms as u64), || json!({"position": fen, "go_depth": depth, "stop_after_ms": stop_after_ms, "answer_after_ms": t0.elapsed().as_millis() as u64, "heavy_pieces": heavy}));
                        sess.quit();
                        Ok(())
                    }
                    None => {
                        sess.kill();
                        // the class of the input is part of the signature, so that the known finding below does
                        // not hide a stop that is ignored on ordinary boards
                        let class = if heavy >= 14 { "boards-with-14-or-more-queens-and-rooks" } else { "ordinary-material" };
                        Err(Fail::new(
                            &format!("stop-not-honoured-within-10s:{}", class),
                            format!("{} ({} queens and rooks): `go depth {}`, `stop` after {} ms, no bestmove within 10 s of the stop", fen, heavy, depth, stop_after_ms),
                        ))
                    }
                }
            }
            StopCase::AutoPlay { fen, millis } => {
                let env = vec![("VERIF_AUTO_FEN".to_string(), fen.to_string())];
                let ms = millis.to_string();
                let mut s = Session::start_bin(uci::ENGINE, &["auto", &ms], &env).map_err(|e| Fail::new("harness", e))?;
                s.close_stdin();
                ev.eval();
                ev.class("self_play_runs_with_0_to_2_ms_per_move");
                let t0 = std::time::Instant::now();
                let mut last_fen: Option<String> = None;
                let mut positions = 0u32;
                let mut too_long = false;
                loop {
                    match s.next_line(std::time::Duration::from_millis(500)) {
                        Some((_, l)) => {
                            if let Some(f) = l.strip_prefix("Fen: ") {
                                last_fen = Some(f.trim().to_string());
                                positions += 1;
                            }
                            if l.contains("too long") {
                                too_long = true;
                            }
                        }
                        None => {
                            if s.eof {
                                break;
                            }
                        }
                    }
                    if t0.elapsed().as_secs() > 120 {
                        s.kill();
                        ev.inconclusive("self-play still running after 120 s");
                        return Ok(());
                    }
                }
                let code = s.wait_exit(5_000);
                let pan = s.stderr_text();
                if code != Some(0) || pan.contains("panicked") {
                    return Err(Fail::new("panic", format!("self-play from {} with {} ms per move ended with exit status {:?}: {}", fen, millis, code, pan.chars().take(300).collect::<String>())));
                }
                let Some(lf) = last_fen else {
                    return Err(Fail::new("harness", format!("self-play from {} printed no position", fen)));
                };
                if !too_long {
                    let end = Pos::from_fen(&lf).map_err(|e| Fail::new("harness", format!("cannot read the last position {:?} of the self-play: {}", lf, e)))?;
                    let legal = end.legal();
                    if !legal.is_empty() {
                        return Err(Fail::new(
                            "stopped-search-returns-no-move",
                            format!("self-play from {} with {} ms per move stopped after {} positions at {} although {} moves are legal there (a search ended by the timer returned no move)", fen, millis, positions, lf, legal.len()),
                        ));
                    }
                }
                ev.nontrivial(fp_bytes(format!("{}{}", fen, millis).as_bytes()), || json!({"self_play_from": fen, "millis_per_move": millis, "positions": positions, "ended_by_length_guard": too_long}));
                Ok(())
            }
            StopCase::Dense { fen, depth, upto } => {
                let p = Pos::from_fen(fen).map_err(|e| Fail::new("harness", e))?;
                let g = Game::new(fen).map_err(|e| Fail::new("sane-position-not-importable", e.to_string()))?;
                let base = srch::new_table();
                let mut t = base.clone();
                let (_, d1, _) = stopped_search(&g, &mut t, 1, -1).map_err(|e| Fail::new("panic", e))?;
                let mut t = base.clone();
                let (_, total, _) = stopped_search(&g, &mut t, *depth, -1).map_err(|e| Fail::new("panic", e))?;
                ev.class("dense_sweeps_of_deeper_searches");
                for n in 0..=(*upto as u64).min(total + 2) {
                    self.one(&p, &g, &base, *depth, n, d1, ev)?;
                }
                Ok(())
            }
            StopCase::DeepThenStop { fen, plies } => {
                let p = Pos::from_fen(fen).map_err(|e| Fail::new("harness", e))?;
                let legal: Vec<String> = p.legal().iter().map(|m| m.uci()).collect();
                let Some(cycle) = shuffle_cycles(&p).into_iter().next() else {
                    ev.skip("no shuffle cycle in this position");
                    return Ok(());
                };
                let mut record: Vec<String> = Vec::new();
                while record.len() + 4 <= (*plies as usize).min(396) {
                    record.extend(cycle.iter().map(|m| m.uci()));
                }
                let mut s = Session::start(&[]).map_err(|e| Fail::new("harness", e))?;
                s.send(&format!("position fen {}", fen));
                s.send("go depth 255");
                if s.read_until(|l| l.starts_with("bestmove"), 8_000).is_none() {
                    s.send("stop");
                    if s.read_until(|l| l.starts_with("bestmove"), 8_000).is_none() {
                        s.kill();
                        return Err(Fail::new("no-bestmove-after-stop", format!("{} : `go depth 255` then `stop`: no bestmove within 8 s", fen)));
                    }
                }
                s.send("wait");
                for go in ["go infinite", "go movetime 1", "go wtime 10 btime 10 winc 0 binc 0", "go movetime 0"] {
                    s.send(&format!("position fen {} moves {}", fen, record.join(" ")));
                    s.send(go);
                    if go == "go infinite" {
                        s.send("stop");
                    }
                    ev.eval();
                    ev.class("stopped_searches_after_a_deep_cache_and_a_long_record");
                    let Some(lines) = s.read_until(|l| l.starts_with("bestmove"), 8_000) else {
                        let tail = s.transcript_tail(6);
                        s.kill();
                        return Err(Fail::new("no-bestmove-after-stop", format!("{} searched to the depth ceiling, then after {} plies `{}`: no bestmove within 8 s ({})", fen, record.len(), go, tail)));
                    };
                    let bm = uci::bestmove_of(&lines).unwrap_or_default();
                    if !legal.contains(&bm) {
                        s.kill();
                        let sig = if bm == "none" { "stopped-search-returns-no-move" } else { "stopped-search-returns-illegal-move" };
                        return Err(Fail::new(sig, format!("{} searched to the depth ceiling, then after {} shuffle plies `{}`: bestmove {} ; legal {:?}", fen, record.len(), go, bm, legal)));
                    }
                    s.send("wait");
                }
                ev.nontrivial(mix(fp_pos(&p) ^ 0xDEE9 ^ *plies as u64), || json!({"position": fen, "record_plies": record.len()}));
                s.quit();
                Ok(())
            }
            StopCase::FewMoves { walk } => {
                let Some(r) = resolve_walk(walk) else {
                    ev.skip("construction did not yield a sane position");
                    return Ok(());
                };
                let mut g = Game::new(&r.start.fen6()).map_err(|e| Fail::new("sane-position-not-importable", e.to_string()))?;
                let mut p = r.start.clone();
                let mut played: Vec<RMove> = Vec::new();
                for m in &r.moves {
                    let Some(em) = eng::find_legal(&mut g, &m.uci()) else {
                        return Err(Fail::new("legal-move-not-offered", format!("{} in {}", m.uci(), g.fen())));
                    };
                    g.push_history(em);
                    p = p.make(*m);
                    played.push(*m);
                    let legal = p.legal();
                    if legal.is_empty() || legal.len() > 3 || !search_friendly(&p) {
                        continue;
                    }
                    ev.class(if legal.iter().all(|x| p.is_capture(*x)) { "few_move_positions_where_every_legal_move_is_a_capture" } else { "few_move_positions" });
                    let texts: Vec<String> = legal.iter().map(|x| x.uci()).collect();
                    let base = srch::new_table();
                    for n in [BEFORE_START, 0, 1, 2, 3, 6] {
                        let mut t = base.clone();
                        let (best, _, after) = stopped_search(&g, &mut t, 2, n).map_err(|e| Fail::new("panic", format!("{} stop instant {}: {}", p.fen4(), n, e)))?;
                        ev.eval();
                        let bad = match &best {
                            None => true,
                            Some(b) => !texts.contains(b),
                        };
                        if bad || after != 0 {
                            let rec = StopCase::Cycle { start: r.start.fen6(), moves: played.iter().map(|x| x.uci()).collect(), depth: 2, warm: false, binary: false };
                            let sig = if after != 0 { "nodes-expanded-after-stop" } else if best.is_none() { "stopped-search-returns-no-move" } else { "stopped-search-returns-illegal-move" };
                            return Err(Fail::new(sig, format!("{} ({} legal moves: {:?}): stop instant {} (-2 = before the search starts) of a depth-2 search: answer {:?}, {} node entries after the stop", p.fen4(), texts.len(), texts, n, best, after)).with_case(serde_json::to_value(rec).unwrap()));
                        }
                    }
                    ev.nontrivial(mix(fp_pos(&p) ^ 0xFE3), || json!({"position": p.fen4(), "legal_moves": texts}));
                }
                Ok(())
            }
            StopCase::One { fen, depth, n } => {
                let p = Pos::from_fen(fen).map_err(|e| Fail::new("harness", e))?;
                let g = Game::new(fen).map_err(|e| Fail::new("sane-position-not-importable", e.to_string()))?;
                let base = srch::new_table();
                let mut t = base.clone();
                let (_, d1, _) = stopped_search(&g, &mut t, 1, -1).map_err(|e| Fail::new("panic", e))?;
                self.one(&p, &g, &base, *depth, *n, d1, ev)
            }
            StopCase::Sweep { walk, depth, warm } => {
                let Some(r) = resolve_walk(walk) else {
                    ev.skip("construction did not yield a sane position");
                    return Ok(());
                };
                if !search_friendly(&r.end) {
                    ev.skip(SKIP_HEAVY);
                    return Ok(());
                }
                self.sweep(&r.start, &r.moves, *depth, *warm, ev)
            }
            StopCase::Cycle { start, moves, depth, warm, binary } => {
                let st = Pos::from_fen(start).map_err(|e| Fail::new("harness", e))?;
                let mut p = st.clone();
                let mut ms = Vec::new();
                for t in moves {
                    let Some(m) = p.legal().into_iter().find(|m| &m.uci() == t) else {
                        return Err(Fail::new("harness", format!("cycle move {} not legal in {}", t, p.fen4())));
                    };
                    ms.push(m);
                    p = p.make(m);
                }
                ev.class("records_ending_in_a_forced_repetition");
                self.sweep(&st, &ms, *depth, *warm, ev)?;
                if *binary {
                    let legal: Vec<String> = p.legal().iter().map(|m| m.uci()).collect();
                    for go in ["go infinite", "go movetime 1", "go movetime 0", "go wtime 10 btime 10 winc 0 binc 0"] {
                        let mut sess = Session::start(&[]).map_err(|e| Fail::new("harness", e))?;
                        sess.send(&format!("position fen {} moves {}", st.fen6(), moves.join(" ")));
                        sess.send(go);
                        if go == "go infinite" {
                            sess.send("stop");
                        }
                        let out = sess.read_until(|l| l.starts_with("bestmove"), 8000);
                        ev.eval();
                        ev.class("uci_stopped_searches_at_the_end_of_a_forced_repetition");
                        let Some(lines) = out else {
                            let tail = sess.transcript_tail(8);
                            sess.kill();
                            return Err(Fail::new("no-bestmove-after-stop", format!("{} moves {} + {:?}: no bestmove within 8 s ({})", st.fen6(), moves.join(" "), go, tail)));
                        };
                        let bm = uci::bestmove_of(&lines).unwrap_or_default();
                        sess.quit();
                        if !legal.contains(&bm) {
                            let sig = if bm == "none" { "stopped-search-returns-no-move" } else { "stopped-search-returns-illegal-move" };
                            return Err(Fail::new(sig, format!("position fen {} moves {} + {:?}: bestmove {} ; legal {:?}", st.fen6(), moves.join(" "), go, bm, legal)));
                        }
                    }
                }
                Ok(())
            }
        }
    }
}
