//! C10: forced mates within the horizon are found; dead positions are reported as such.

use crate::eng::Game;
use crate::ev::*;
use crate::gen::*;
use crate::refchess::*;
use crate::runner::{Ctx, Prop};
use crate::srch;
use crate::uci::{self, Session};
use proptest::prelude::*;
use serde::{Deserialize, Serialize};
use serde_json::json;

#[derive(Serialize, Deserialize, Clone, Debug)]
pub enum MateCase {
    /// random small-material position: kings + 1-6 men; labelled by the model's solver, unlabelled
    /// candidates are counted as rejected
    Small {
        men: Vec<(u8, u8)>,
        wk: u8,
        bk: u8,
        white: bool,
        sample: u8,
        via_uci: bool,
        /// index into HISTORY_PLIES: the position is reached at the end of a game record of that many plies
        /// (both sides shuffle a piece out and back), as after `position … moves …`
        #[serde(default)]
        history: u8,
    },
    /// themed small positions where the rare mates live: theme 0 = defender king caged in a corner by its own
    /// men, attacked by king + minor pieces / pawns; theme 1 = attacker pawn on the seventh rank beside the
    /// defender king (promotion and under-promotion mates, promotion captures); mirrored / colour-swapped by `sym`
    Themed { theme: u8, bytes: Vec<u8>, sym: u8, history: u8 },
    /// end of a walk (middlegames): labelled the same way
    WalkEnd { walk: Walk, sample: u8 },
    /// a labelled position given as text (enumerations, shrunk form)
    Fen {
        fen: String,
        via_uci: bool,
        #[serde(default)]
        history: u8,
    },
}

pub const HISTORY_PLIES: [usize; 8] = [0, 0, 0, 0, 40, 160, 300, 380];

/// The engine game for `p`, optionally at the end of a record of `plies` shuffle plies.
/// The engine avoids repeating its own move of four plies ago when the opponent has just repeated his
/// (a documented heuristic at the root). So that this heuristic stays out of the way of what C10 judges,
/// the record is built so that it does NOT end in such a pattern: the last cycle uses another opponent
/// move than the one before it; if the position offers no two such cycles, the record is one cycle long.
/// `avoid` = the key moves of the label. One record in two (chosen from the position) ENDS in the pattern the
/// repetition heuristic looks for, built from a cycle whose own first move is not a key: the heuristic then removes
/// that shuffle move from the root list and nothing else, so every key is still available and the label still binds.
fn game_with_history(p: &Pos, plies: usize, max_halfmove: u64, avoid: &[String]) -> Result<(Game, usize), Fail> {
    // the two counter fields of the FEN are varied too (a checkmate stands even when it is delivered by the move that
    // completes the fifty moves, so a mate in one may start from a clock of 99 and a mate in two from 96)
    let fp = fp_pos(p);
    let halfmove = if p.ep.is_some() {
        0
    } else {
        match fp % 4 {
            0 => 0,
            1 => (fp >> 4) % (max_halfmove + 1),
            2 => max_halfmove,
            _ => max_halfmove.saturating_sub(1),
        }
    };
    let fullmove = (1 + (fp >> 12) % 300).max(halfmove / 2 + 1);
    let mut g = Game::new(&format!("{} {} {}", p.fen4(), halfmove, fullmove)).map_err(|e| Fail::new("sane-position-not-importable", e.to_string()))?;
    let mut done = 0;
    if plies >= 4 {
        let cycles = shuffle_cycles(p);
        let with_pattern = (fp >> 40) % 2 == 0;
        let pattern_cycle = cycles.iter().copied().find(|c| !avoid.contains(&c[0].uci()));
        if let (true, Some(c)) = (with_pattern && plies >= 8, pattern_cycle) {
            for _ in 0..plies / 4 {
                for m in c {
                    let Some(em) = crate::eng::find_legal(&mut g, &m.uci()) else {
                        return Err(Fail::new("legal-move-not-offered", format!("{} in {}", m.uci(), g.fen())));
                    };
                    g.push_history(em);
                }
                done += 4;
            }
            // harness self-check: the pattern is there and the move it removes is not a key
            let ms = g.move_stack();
            if !(ms.len() >= 5 && ms[ms.len() - 1] == ms[ms.len() - 5]) || avoid.contains(&ms[ms.len() - 4].uci_notation()) {
                return Err(Fail::new("harness", "history does not end in the intended repetition pattern".into()));
            }
            return Ok((g, done + 1_000_000));
        }
        if let Some(first) = cycles.first().copied() {
            let last = cycles.iter().copied().find(|c| c[1] != first[1] && c[3] != first[3]);
            let total_cycles = match last {
                Some(_) => plies / 4,
                None => 1,
            };
            for k in 0..total_cycles {
                let cycle = if k + 1 == total_cycles && total_cycles > 1 { last.unwrap() } else { first };
                for m in cycle {
                    let Some(em) = crate::eng::find_legal(&mut g, &m.uci()) else {
                        return Err(Fail::new("legal-move-not-offered", format!("{} in {}", m.uci(), g.fen())));
                    };
                    g.push_history(em);
                }
                done += 4;
            }
            // harness self-check: the record must not end in the pattern the repetition heuristic looks for
            let ms = g.move_stack();
            if ms.len() >= 5 && ms[ms.len() - 1] == ms[ms.len() - 5] {
                return Err(Fail::new("harness", "history ends in a repetition pattern".into()));
            }
        }
    }
    Ok((g, done))
}

pub struct C10;

const SMALL_MEN: &[u8] = b"QRRBNPQRqrbnppQRqr";

fn build_small(men: &[(u8, u8)], wk: u8, bk: u8, white: bool) -> Option<Pos> {
    let mut b = [b'.'; 64];
    b[(wk % 64) as usize] = b'K';
    if b[(bk % 64) as usize] != b'.' {
        return None;
    }
    b[(bk % 64) as usize] = b'k';
    for &(pi, s) in men {
        let c = SMALL_MEN[pi as usize % SMALL_MEN.len()];
        let s = (s % 64) as usize;
        if b[s] != b'.' {
            continue;
        }
        if c.to_ascii_lowercase() == b'p' && (s / 8 == 0 || s / 8 == 7) {
            continue;
        }
        b[s] = c;
    }
    let p = Pos { b, white, cr: [false; 4], ep: None };
    if p.sane() {
        Some(p)
    } else {
        let q = Pos { white: !white, ..p };
        if q.sane() {
            Some(q)
        } else {
            None
        }
    }
}

fn mirror_files(p: &Pos) -> Pos {
    let mut b = [b'.'; 64];
    for s in 0..64usize {
        b[(s / 8) * 8 + (7 - s % 8)] = p.b[s];
    }
    Pos { b, white: p.white, cr: [false; 4], ep: None }
}

/// Themed construction (always White attacking first; symmetries applied afterwards)
pub fn build_themed(theme: u8, bytes: &[u8], sym: u8) -> Option<Pos> {
    let by = |i: usize| -> usize { bytes.get(i).copied().unwrap_or(0) as usize };
    let mut b = [b'.'; 64];
    let put = |b: &mut [u8; 64], s: usize, c: u8| -> bool {
        if s < 64 && b[s] == b'.' && !(c.to_ascii_lowercase() == b'p' && (s / 8 == 0 || s / 8 == 7)) {
            b[s] = c;
            true
        } else {
            false
        }
    };
    if theme % 2 == 0 {
        // corner cage: black king on a8 / b8 / a7, up to two black men beside it
        let dk = [56usize, 57, 48][by(0) % 3];
        b[dk] = b'k';
        let (r, f) = ((dk / 8) as i32, (dk % 8) as i32);
        let mut adj: Vec<usize> = Vec::new();
        for dr in -1..=1 {
            for df in -1..=1 {
                if (dr, df) != (0, 0) && (0..8).contains(&(r + dr)) && (0..8).contains(&(f + df)) {
                    adj.push(((r + dr) * 8 + f + df) as usize);
                }
            }
        }
        for k in 0..(by(1) % 3) {
            let sq = adj[by(2 + k) % adj.len()];
            put(&mut b, sq, b"nbprnb"[by(4 + k) % 6]);
        }
        // white king two or three squares away
        let cands: Vec<usize> = (0..64usize).filter(|&s| { let (rr, ff) = ((s / 8) as i32, (s % 8) as i32); let d = (rr - r).abs().max((ff - f).abs()); (2..=3).contains(&d) && b[s] == b'.' }).collect();
        if cands.is_empty() {
            return None;
        }
        b[cands[by(6) % cands.len()]] = b'K';
        for k in 0..(1 + by(7) % 3) {
            let c = b"NBNBNBPPRQ"[by(8 + k) % 10];
            // near the corner more often than not
            let sq = if by(11 + k) % 4 != 0 { ((4 + by(14 + k) % 4) * 8 + by(17 + k) % 4) as usize } else { by(14 + k) % 64 };
            put(&mut b, sq, c);
        }
    } else {
        // promotion: white pawn on the seventh, black king on the eighth within two files
        let pf = by(0) % 8;
        b[48 + pf] = b'P';
        let kf = (pf as i32 + (by(1) % 5) as i32 - 2).clamp(0, 7) as usize;
        if kf == pf {
            // king in front of the pawn: put it one rank lower beside instead
            put(&mut b, 40 + (pf + 1).min(7), b'k');
            if !b.contains(&b'k') {
                return None;
            }
        } else {
            b[56 + kf] = b'k';
        }
        // a black piece the pawn can capture while promoting, sometimes
        if by(2) % 2 == 0 {
            let cf = if by(3) % 2 == 0 { pf.wrapping_sub(1) } else { pf + 1 };
            if cf < 8 {
                put(&mut b, 56 + cf, b"rnbq"[by(4) % 4]);
            }
        }
        // other black men near the king
        for k in 0..(by(5) % 3) {
            put(&mut b, 40 + by(6 + k) % 24, b"pnbrp"[by(8 + k) % 5]);
        }
        let wk = by(10) % 64;
        if !put(&mut b, wk, b'K') {
            return None;
        }
        for k in 0..(by(11) % 3) {
            put(&mut b, by(12 + k) % 64, b"RBNQPN"[by(14 + k) % 6]);
        }
    }
    let mut p = Pos { b, white: true, cr: [false; 4], ep: None };
    if sym & 1 != 0 {
        p = mirror_files(&p);
    }
    if sym & 2 != 0 {
        p = p.mirror();
    }
    if p.sane() {
        Some(p)
    } else {
        None
    }
}

/// Mates in one delivered by a special move: theme 2 = castling (either side of the board), theme 3 = an en-passant
/// capture. Up to 80 pseudo-random placements derived from `bytes` are tried until the special move mates; the
/// position is returned with White to move (the colour mirror is applied afterwards by `sym`).
fn build_special(theme: u8, bytes: &[u8], sym: u8) -> Option<Pos> {
    let mut x = fp_bytes(bytes) ^ theme as u64;
    let mut next = |n: usize| -> usize {
        x = mix(x);
        (x >> 33) as usize % n.max(1)
    };
    for _ in 0..80 {
        let mut b = [b'.'; 64];
        let mut cr = [false; 4];
        let mut ep = None;
        let special_kind;
        if theme % 4 == 2 {
            b[4] = b'K';
            let short = next(2) == 0;
            if short {
                b[7] = b'R';
                cr[0] = true;
            } else {
                b[0] = b'R';
                cr[1] = true;
            }
            special_kind = if short { K_OO } else { K_OOO };
            // the rook lands on f1 / d1: the black king somewhere on that file (not next to e1), or on the first rank beyond it
            let rf = if short { 5usize } else { 3 };
            let ks = if next(4) == 0 { if short { 6 + next(2) } else { next(2) } } else { (2 + next(6)) * 8 + rf };
            if b[ks] != b'.' {
                continue;
            }
            b[ks] = b'k';
        } else {
            // white pawn on the fifth rank, the black pawn beside it has just come from the seventh
            let wf = next(8);
            let bf = if wf == 0 { 1 } else if wf == 7 { 6 } else if next(2) == 0 { wf - 1 } else { wf + 1 };
            b[32 + wf] = b'P';
            b[32 + bf] = b'p';
            ep = Some(bf as u8);
            special_kind = K_EP;
            let ks = (4 + next(4)) * 8 + (bf as i32 + next(5) as i32 - 2).clamp(0, 7) as usize;
            if b[ks] != b'.' || ks == 40 + bf || ks == 48 + bf {
                continue;
            }
            b[ks] = b'k';
            let wk = next(64);
            if b[wk] != b'.' {
                continue;
            }
            b[wk] = b'K';
        }
        let ks = b.iter().position(|&c| c == b'k').unwrap();
        // white men, mostly near the black king; a few black men that take flight squares away
        for _ in 0..(2 + next(4)) {
            let c = b"QRRBBNNP"[next(8)];
            let s = if next(4) != 0 {
                let (r, f) = ((ks / 8) as i32 + next(7) as i32 - 3, (ks % 8) as i32 + next(7) as i32 - 3);
                if !(0..8).contains(&r) || !(0..8).contains(&f) {
                    continue;
                }
                (r * 8 + f) as usize
            } else {
                next(64)
            };
            if b[s] == b'.' && !(c == b'P' && (s / 8 == 0 || s / 8 == 7)) && !(ep.is_some() && (s == 40 + ep.unwrap() as usize || s == 48 + ep.unwrap() as usize)) {
                b[s] = c;
            }
        }
        for _ in 0..next(3) {
            let c = b"ppnbr"[next(5)];
            let (r, f) = ((ks / 8) as i32 + next(3) as i32 - 1, (ks % 8) as i32 + next(3) as i32 - 1);
            if !(0..8).contains(&r) || !(0..8).contains(&f) {
                continue;
            }
            let s = (r * 8 + f) as usize;
            if b[s] == b'.' && !(c == b'p' && (s / 8 == 0 || s / 8 == 7)) && !(ep.is_some() && (s == 40 + ep.unwrap() as usize || s == 48 + ep.unwrap() as usize)) {
                b[s] = c;
            }
        }
        let p = Pos { b, white: true, cr, ep };
        if !p.sane() {
            continue;
        }
        let mates = p.legal().into_iter().any(|m| m.kind == special_kind && {
            let q = p.make(m);
            q.in_check(q.white) && q.legal().is_empty()
        });
        if mates {
            return Some(if sym & 2 != 0 { p.mirror() } else { p });
        }
    }
    None
}

#[derive(Debug, Clone, Copy, PartialEq)]
enum Label {
    Dead,
    Mate1,
    Mate2,
    None,
}

fn label(p: &Pos, want_m2: bool) -> Label {
    let legal = p.legal();
    if legal.is_empty() {
        return Label::Dead;
    }
    if !mate_in_1_moves(p).is_empty() {
        return Label::Mate1;
    }
    if want_m2 && !mate_in_2_moves(p).is_empty() {
        return Label::Mate2;
    }
    Label::None
}

impl C10 {
    fn judge(&self, p: &Pos, lab: Label, via_uci: bool, history: u8, ev: &mut Ev) -> Result<(), Fail> {
        let p_fen = p.fen6();
        let case = |via: bool| serde_json::to_value(MateCase::Fen { fen: p_fen.clone(), via_uci: via, history }).unwrap();
        let label_keys: Vec<String> = match lab {
            Label::Mate1 => mate_in_1_moves(p).iter().map(|m| m.uci()).collect(),
            Label::Mate2 => mate_in_2_moves(p).iter().map(|m| m.uci()).collect(),
            _ => Vec::new(),
        };
        let (g, plies_done) = game_with_history(p, HISTORY_PLIES[history as usize % HISTORY_PLIES.len()], if lab == Label::Mate2 { 96 } else { 99 }, &label_keys)?;
        let ends_in_pattern = plies_done >= 1_000_000;
        let plies_done = plies_done % 1_000_000;
        if ends_in_pattern {
            ev.class("labelled_positions_whose_record_ends_in_the_repetition_pattern");
        }
        let fen = if plies_done > 0 { format!("{} (at the end of a game record of {} plies)", p_fen, plies_done) } else { p_fen.clone() };
        if plies_done > 0 {
            ev.class(if plies_done >= 160 { "labelled_positions_after_160_or_more_plies_of_history" } else { "labelled_positions_after_40_plies_of_history" });
        }
        let search = |depth: Option<u8>| -> Result<srch::SearchOut, Fail> {
            let mut t = srch::new_table();
            let out = srch::run_search(&g, &mut t, depth, 15_000);
            if let Some(pn) = &out.panicked {
                return Err(Fail::new("panic", format!("search of {} : {}", fen, pn)).with_case(case(false)));
            }
            Ok(out)
        };
        match lab {
            Label::None => {}
            Label::Dead => {
                ev.eval();
                ev.class(if p.in_check(p.white) { "checkmated_roots" } else { "stalemated_roots" });
                let out = search(Some(3))?;
                if let Some(m) = &out.best {
                    return Err(Fail::new("move-invented-in-dead-position", format!("{} has no legal move, search returned {}", fen, m)).with_case(case(false)));
                }
                ev.nontrivial(fp_pos(p), || json!({"position": fen, "label": "no legal move", "in_check": p.in_check(p.white)}));
            }
            Label::Mate1 => {
                let keys: Vec<String> = mate_in_1_moves(p).iter().map(|m| m.uci()).collect();
                ev.class("mate_in_1_positions");
                if keys.iter().all(|k| k.len() == 5) {
                    ev.class("mate_in_1_only_by_promotion");
                }
                let key_moves = mate_in_1_moves(p);
                if key_moves.iter().all(|m| m.kind == K_OO || m.kind == K_OOO) {
                    ev.class("mate_in_1_only_by_castling");
                }
                if key_moves.iter().all(|m| m.kind == K_EP) {
                    ev.class("mate_in_1_only_by_en_passant");
                }
                if !p.b.iter().any(|c| b"QRPqrp".contains(c)) {
                    ev.class("mate_in_1_with_minor_pieces_only");
                }
                for d in [3u8, 4, 5] {
                    ev.eval();
                    let out = search(Some(d))?;
                    if !out.best.as_ref().is_some_and(|m| keys.contains(m)) {
                        return Err(Fail::new(
                            "mate-in-one-not-played",
                            format!("{} : depth {} plays {:?}; mating moves are {:?}", fen, d, out.best, keys),
                        )
                        .with_case(case(false)));
                    }
                }
                // without a limit the search stops by itself once the mate is seen
                ev.eval();
                let out = search(None)?;
                if out.watchdog_fired {
                    return Err(Fail::new("search-does-not-stop-on-forced-mate", format!("{} (mate in one): unlimited search still running after 15 s, deepest iteration {:?}", fen, out.depths().last())).with_case(case(false)));
                }
                let maxd = out.depths().into_iter().max().unwrap_or(0);
                if maxd > 5 {
                    return Err(Fail::new("search-does-not-stop-on-forced-mate", format!("{} (mate in one): unlimited search went on to depth {}", fen, maxd)).with_case(case(false)));
                }
                if !out.best.as_ref().is_some_and(|m| keys.contains(m)) {
                    return Err(Fail::new("mate-in-one-not-played", format!("{} : unlimited search plays {:?}; mating moves are {:?}", fen, out.best, keys)).with_case(case(false)));
                }
                ev.nontrivial(fp_pos(p), || json!({"position": fen, "label": "mate in 1", "mating_moves": keys, "stopped_at_depth": maxd}));
            }
            Label::Mate2 => {
                let keys: Vec<String> = mate_in_2_moves(p).iter().map(|m| m.uci()).collect();
                ev.class("mate_in_2_positions");
                if keys.iter().all(|k| k.ends_with('r') || k.ends_with('b') || k.ends_with('n')) {
                    ev.class("mate_in_2_only_by_under_promotion");
                }
                let legal = p.legal();
                for d in [5u8, 6, 0] {
                    ev.eval();
                    let out = search(if d == 0 { None } else { Some(d) })?;
                    if d == 0 {
                        if out.watchdog_fired {
                            return Err(Fail::new("search-does-not-stop-on-forced-mate", format!("{} (mate in two): unlimited search still running after 15 s", fen)).with_case(case(false)));
                        }
                        let maxd = out.depths().into_iter().max().unwrap_or(0);
                        if maxd > 7 {
                            return Err(Fail::new("search-does-not-stop-on-forced-mate", format!("{} (mate in two): unlimited search went on to depth {}", fen, maxd)).with_case(case(false)));
                        }
                    }
                    let Some(bm) = out.best.clone() else {
                        return Err(Fail::new("forced-mate-not-kept", format!("{} : depth {} returned no move", fen, d)).with_case(case(false)));
                    };
                    let Some(&rm) = legal.iter().find(|m| m.uci() == bm) else {
                        return Err(Fail::new("forced-mate-not-kept", format!("{} : depth {} returned {} which is not legal", fen, d, bm)).with_case(case(false)));
                    };
                    if keys.contains(&bm) {
                        ev.class("mate_in_2_answered_with_a_key_move");
                        continue;
                    }
                    // not a key of the mate in two: it must still keep a forced mate
                    let mut budget = 3_000_000i64;
                    let kept = keeps_mate(&p.make(rm), 3, &mut budget);
                    if budget < 0 {
                        ev.inconclusive("solver budget exhausted while proving that a non-key move keeps the mate");
                        continue;
                    }
                    if !kept {
                        return Err(Fail::new(
                            "forced-mate-not-kept",
                            format!("{} : depth {} plays {} after which no mate can be forced within 3 more moves; keys of the mate in two: {:?}", fen, d, bm, keys),
                        )
                        .with_case(case(false)));
                    }
                    ev.class("mate_in_2_answered_with_a_longer_mate");
                    ev.observe(json!({"non_shortest": {"position": fen, "depth": d, "played": bm, "keys": keys}}));
                }
                ev.nontrivial(fp_pos(p), || json!({"position": fen, "label": "forced mate in 2", "key_moves": keys}));
            }
        }
        if via_uci && lab != Label::None {
            let mut sess = Session::start(&[]).map_err(|e| Fail::new("harness", e))?;
            sess.send(&format!("position fen {}", p_fen));
            sess.send(match lab {
                Label::Mate2 => "go depth 6",
                _ => "go depth 4",
            });
            let Some(lines) = sess.read_until(|l| l.starts_with("bestmove"), 15_000) else {
                sess.kill();
                return Err(Fail::new("no-bestmove", format!("{} through the binary", fen)).with_case(case(true)));
            };
            ev.class("uci_sessions");
            let bm = uci::bestmove_of(&lines).unwrap_or_default();
            match lab {
                Label::Dead => {
                    if bm != "none" {
                        return Err(Fail::new("move-invented-in-dead-position", format!("{} : binary announces bestmove {}", fen, bm)).with_case(case(true)));
                    }
                }
                Label::Mate1 => {
                    if !mate_in_1_moves(p).iter().any(|m| m.uci() == bm) {
                        return Err(Fail::new("mate-in-one-not-played", format!("{} : binary plays {}", fen, bm)).with_case(case(true)));
                    }
                }
                _ => {}
            }
            sess.quit();
        }
        Ok(())
    }
}

impl Prop for C10 {
    type Case = MateCase;

    fn id(&self) -> &'static str {
        "C10"
    }

    fn rule(&self) -> String {
        "Cases: random small-material positions (kings + 1-6 men), themed small positions (defender king caged in a corner by its own men against king + minor pieces / pawns; attacker pawn on the seventh rank beside the defender king - promotion, under-promotion and promotion-capture mates; all mirrored and colour-swapped; positions built so that castling, respectively an en-passant capture, is a mate in one) and ends of generated walks, labelled by the reference model's own solver: no legal move; mate in 1; forced mate in 2 (no mate in 1; a move after which the opponent has a reply and every reply allows mate in 1); everything else is counted as an unlabelled candidate and not searched. Fresh table each time; the halfmove-clock and move-number fields of the imported FEN are varied (clock 0-99 for mates in one and dead roots, 0-96 for mates in two: a checkmate stands even when it completes the fifty moves); half of the labelled positions stand at the end of a game record of 40, 160, 300 or 380 plies (both sides shuffling a piece out and back), as after `position … moves …`; half of these records end in the very pattern the root repetition heuristic looks for, built from a cycle whose own first move is not a key of the label, so that the heuristic removes that shuffle move and every key stays available. Mate in 1: depth 3, 4, 5 and an unlimited search must return a mating move, and the unlimited search must return by itself with no iteration beyond depth 5. Mate in 2: depth 5, 6 and unlimited must return a key move or a move after which the model can still prove a forced mate within 3 more moves (solver budget exhaustion = inconclusive); unlimited search must end by itself at depth <= 7. No legal move: the search returns no move (and the binary prints `bestmove none`). A sample goes through the real binary. Thorough adds the exhaustive KQK and KRK tables. evaluations = searches judged. Non-trivial = every labelled position; distinct by position.".into()
    }

    fn assumptions(&self) -> Vec<String> {
        vec![
            "'keeps the forced mate' is read as the statement says: the played move need not be the shortest mate; non-shortest answers are reported in the evidence as observations (non_shortest), not raised".into(),
            "labels come from the reference model only".into(),
        ]
    }

    fn cases(&self, tier: Tier) -> u32 {
        tier.pick(640_000, 6_000_000)
    }

    fn shard_timeout_s(&self, tier: Tier) -> u64 {
        tier.pick(900, 7200)
    }

    fn hang_is_violation(&self) -> bool {
        true
    }

    fn strategy(&self, _ctx: &Ctx) -> BoxedStrategy<MateCase> {
        let men = proptest::collection::vec((any::<u8>(), 0u8..64), 1..7);
        prop_oneof![
            9 => (men, 0u8..64, 0u8..64, any::<bool>(), any::<u8>(), prop::bool::weighted(0.05), 0u8..8)
                .prop_map(|(men, wk, bk, white, sample, via_uci, history)| MateCase::Small { men, wk, bk, white, sample, via_uci, history }),
            1 => (walk_strategy(false), any::<u8>()).prop_map(|(walk, sample)| MateCase::WalkEnd { walk, sample }),
            8 => (prop_oneof![5 => Just(0u8), 10 => Just(1u8), 1 => Just(2u8), 1 => Just(3u8)], proptest::collection::vec(any::<u8>(), 20..21), 0u8..4, 0u8..8).prop_map(|(theme, bytes, sym, history)| MateCase::Themed { theme, bytes, sym, history }),
        ]
        .boxed()
    }

    fn check(&self, _ctx: &Ctx, case: &MateCase, ev: &mut Ev) -> Result<(), Fail> {
        let (p, sample, via_uci, history) = match case {
            MateCase::Small { men, wk, bk, white, sample, via_uci, history } => match build_small(men, *wk, *bk, *white) {
                Some(p) => (p, *sample, *via_uci, *history),
                None => {
                    ev.skip("construction did not yield a sane position");
                    return Ok(());
                }
            },
            MateCase::Themed { theme, bytes, sym, history } => match if *theme >= 2 { build_special(*theme, bytes, *sym) } else { build_themed(*theme, bytes, *sym) } {
                Some(p) => {
                    ev.class(match theme % 4 {
                        0 => "themed_corner_cage_candidates",
                        1 => "themed_promotion_candidates",
                        2 => "themed_mate_by_castling_positions",
                        _ => "themed_mate_by_en_passant_positions",
                    });
                    // (a record of shuffles would cost the castling right / the en-passant file)
                    (p, 0, false, if *theme >= 2 { 0 } else { *history })
                }
                None => {
                    ev.skip("construction did not yield a sane position");
                    return Ok(());
                }
            },
            MateCase::WalkEnd { walk, sample } => match resolve_walk(walk) {
                Some(r) if search_friendly(&r.end) => (r.end, *sample, false, 0u8),
                _ => {
                    ev.skip("construction did not yield a sane position");
                    return Ok(());
                }
            },
            MateCase::Fen { fen, via_uci, history } => {
                let p = Pos::from_fen(fen).map_err(|e| Fail::new("harness", e))?;
                (p, 0, *via_uci, *history)
            }
        };
        // the mate-in-two labelling is the expensive part: look for it on one candidate in three
        let lab = label(&p, sample % 3 == 0);
        if lab == Label::None {
            ev.skip("candidate without a label (no mate in 1 / forced mate in 2 / dead root)");
            return Ok(());
        }
        self.judge(&p, lab, via_uci, history, ev)
    }

    fn enumerate(&self, ctx: &Ctx, ev: &mut Ev, report: &mut dyn FnMut(MateCase, Fail)) {
        // fixed labelled positions
        let fixed = [
            "8/8/8/1Q5K/4Q3/8/2Pk4/8 w - - 0 1",
            "6k1/5ppp/8/8/8/8/r4PPP/1R4K1 w - - 0 1",
            "7k/5Q2/6K1/8/8/8/8/8 b - - 0 1",
            "7k/5K2/6Q1/8/8/8/8/8 b - - 0 1",
            "rnb1kbnr/pppp1ppp/8/4p3/6Pq/5P2/PPPPP2P/RNBQKBNR w KQkq - 1 3",
            "r1bqkb1r/pppp1Qpp/2n2n2/4p3/2B1P3/8/PPPP1PPP/RNB1K1NR b KQkq - 0 4",
        ];
        for (i, f) in fixed.iter().enumerate() {
            if !ctx.owns(i as u64) {
                continue;
            }
            let p = Pos::from_fen(f).unwrap();
            let lab = label(&p, true);
            ctx.note_inflight("C10", &MateCase::Fen { fen: f.to_string(), via_uci: true, history: (i % 8) as u8 });
            if let Err(fail) = self.judge(&p, lab, true, (i % 8) as u8, ev) {
                report(MateCase::Fen { fen: f.to_string(), via_uci: true, history: (i % 8) as u8 }, fail);
                return;
            }
        }
        if ctx.tier == Tier::Thorough {
            for &x in b"QR" {
                let mut failed = None;
                let mut n = 0u64;
                crate::props::poswalk::kxk_positions(x, |i, p| {
                    if failed.is_some() || !ctx.owns(i) {
                        return;
                    }
                    let lab = label(p, i % 5 == 0);
                    if lab == Label::None {
                        return;
                    }
                    n += 1;
                    if let Err(f) = self.judge(p, lab, false, (i % 8) as u8, ev) {
                        failed = Some((MateCase::Fen { fen: p.fen6(), via_uci: false, history: (i % 8) as u8 }, f));
                    }
                });
                ev.class_n(&format!("exhaustive_K{}K_labelled_positions", x as char), n);
                if let Some((c, f)) = failed {
                    report(c, f);
                    return;
                }
            }
        }
    }
}
