//! C06 (announced move is legal) and C18 (printed principal variations are playable): stateful
//! histories of searches sharing one transposition table, in-process and through the real binary.

use crate::eng::{self, Game};
use crate::ev::*;
use crate::gen::*;
use crate::refchess::*;
use crate::runner::{Ctx, Prop};
use crate::srch;
use crate::uci::{self, Session};
use proptest::collection::vec;
use proptest::prelude::*;
use serde::{Deserialize, Serialize};
use serde_json::json;

#[derive(Clone, Copy, PartialEq, Eq, Debug)]
pub enum Which {
    C06,
    C18,
}

#[derive(Serialize, Deserialize, Clone, Debug)]
pub struct Step {
    /// 0 extend the game by `picks`; 1 take back `back` plies then extend; 2 play a-b-a-b shuffles
    /// (repetition pattern) then search; 3 jump to another root (other game, same table);
    /// 4 ucinewgame (table cleared) then extend; 5 forced cycle (perpetual check) then search;
    /// 6 search the parent of a dead position, then the dead position; 7 stopped search, then its cached descendants;
    /// 8 deep search of a generated mating-attack root, then its cached descendants;
    /// 9 state twins: a position with an en-passant capture, then the same placement without the file / without a right
    pub nav: u8,
    pub back: u8,
    pub picks: Vec<Pick>,
    pub root: u16,
    pub depth: u8,
}

#[derive(Serialize, Deserialize, Clone, Debug)]
pub struct HistCase {
    pub start: Start,
    pub steps: Vec<Step>,
    pub via_uci: bool,
}

pub struct Hist {
    pub which: Which,
}

/// positions with a perpetual check: the checked side has a single reply each time
pub const PERPETUAL: &[&str] = &[
    "6k1/p5p1/1p6/7Q/8/1P6/P5PP/6K1 w - - 0 1",
    "6k1/p5pp/1p6/8/7q/1P6/P5P1/6K1 b - - 0 1",
    "5rk1/5p1p/8/8/8/8/1Q6/K7 w - - 0 1",
];

/// positions with a mate in one (the mated position becomes an interior node of a search of these)
pub const MATE_ROOTS: &[&str] = &[
    "rnbqkbnr/pppp1ppp/8/4p3/6P1/5P2/PPPPP2P/RNBQKBNR b KQkq - 0 2",
    "6k1/5ppp/8/8/8/8/8/R5K1 w - - 0 1",
    "r1bqkb1r/pppp1ppp/2n2n2/4p2Q/2B1P3/8/PPPP1PPP/RNB1K1NR w KQkq - 4 4",
    "7k/5Q2/5K2/8/8/8/8/8 w - - 0 1",
    "k7/2Q5/1K6/8/8/8/8/8 w - - 0 1",
    "6k1/5ppp/8/8/8/8/r4PPP/6K1 b - - 0 1",
];

fn step_strategy() -> impl Strategy<Value = Step> {
    let nav = prop_oneof![5 => Just(0u8), 3 => Just(1u8), 2 => Just(2u8), 1 => Just(3u8), 1 => Just(4u8), 1 => Just(5u8), 1 => Just(6u8), 2 => Just(7u8), 2 => Just(8u8), 2 => Just(9u8)];
    (nav, 0u8..4, vec(pick_strategy(), 0..4), any::<u16>(), prop_oneof![2 => 1u8..3, 3 => 3u8..5, 1 => 5u8..6]).prop_map(|(nav, back, picks, root, depth)| Step { nav, back, picks, root, depth })
}

/// The model-side game: start + moves
struct Line {
    start: Pos,
    moves: Vec<RMove>,
}

impl Line {
    fn pos(&self) -> Pos {
        let mut p = self.start.clone();
        for &m in &self.moves {
            p = p.make(m);
        }
        p
    }
    fn extend(&mut self, picks: &[Pick]) {
        let mut p = self.pos();
        for &pk in picks {
            if self.moves.len() >= 380 {
                break;
            }
            let legal = p.legal();
            let Some(m) = resolve_pick(&p, &legal, pk, &self.moves) else { break };
            self.moves.push(m);
            p = p.make(m);
        }
    }
    /// Forced cycle (perpetual check): X plays a, the only reply is b, X plays a', the only reply is b'
    /// and the position is the same again; the line a b a' b' a leaves the opponent to move with exactly
    /// one legal move, which is also its move of four plies ago (the move the repetition filter removes).
    fn forced_cycle(&mut self) -> bool {
        if self.moves.len() >= 370 {
            return false;
        }
        match forced_cycle(&self.pos()) {
            Some(c) => {
                self.moves.extend(c);
                true
            }
            None => false,
        }
    }

    /// a-b-a-b: both sides move a piece out and back twice, if such moves exist
    fn shuffle(&mut self, pk: Pick) {
        for _ in 0..2 {
            let p = self.pos();
            let legal = p.legal();
            let quiet: Vec<RMove> = legal.iter().copied().filter(|&m| !p.is_capture(m) && m.promo == 0 && m.kind == K_NORMAL && p.b[m.from as usize].to_ascii_lowercase() != b'p').collect();
            if quiet.is_empty() || self.moves.len() >= 370 {
                return;
            }
            let a = quiet[(pk.idx as usize * quiet.len()) >> 16];
            let p1 = p.make(a);
            let l1 = p1.legal();
            let q1: Vec<RMove> = l1.iter().copied().filter(|&m| !p1.is_capture(m) && m.promo == 0 && m.kind == K_NORMAL && p1.b[m.from as usize].to_ascii_lowercase() != b'p').collect();
            if q1.is_empty() {
                return;
            }
            let b = q1[(pk.idx as usize * q1.len()) >> 16];
            let p2 = p1.make(b);
            let back_a = RMove { from: a.to, to: a.from, promo: 0, kind: K_NORMAL };
            if !p2.legal().contains(&back_a) {
                return;
            }
            let p3 = p2.make(back_a);
            let back_b = RMove { from: b.to, to: b.from, promo: 0, kind: K_NORMAL };
            if !p3.legal().contains(&back_b) {
                return;
            }
            self.moves.extend([a, b, back_a, back_b]);
        }
    }
}

/// A sane constructed position with a capturable en-passant file, derived from two generated numbers
fn twin_source(seed: u16, salt: u8) -> Option<Pos> {
    let mut x = mix(seed as u64 * 911 + salt as u64 * 7);
    for _ in 0..12 {
        let mut next = |n: u64| {
            x = mix(x);
            (x >> 24) % n
        };
        let men: Vec<(u8, u8)> = (0..(4 + next(14))).map(|_| (next(256) as u8, next(64) as u8)).collect();
        let c = Construct { home: next(64) as u8, wk: next(64) as u8, bk: next(64) as u8, men, white: next(2) == 0, cr: next(32) as u8, ep: 16 + next(8) as u8 };
        if let Some(p) = c.build() {
            if p.ep.is_some() && p.legal().iter().any(|m| m.kind == K_EP) && search_friendly(&p) {
                return Some(p);
            }
        }
    }
    None
}

/// A sane K+Q (+R) v K (+P) position with the stronger side to move, derived from two generated numbers
fn mating_root(seed: u16, salt: u8) -> Option<Pos> {
    let mut x = mix(seed as u64 * 257 + salt as u64);
    for _ in 0..20 {
        let mut next = |n: u64| {
            x = mix(x);
            ((x >> 20) % n) as usize
        };
        let mut b = [b'.'; 64];
        let (wk, bk, q) = (next(64), next(64), next(64));
        if wk == bk || q == wk || q == bk {
            continue;
        }
        b[wk] = b'K';
        b[bk] = b'k';
        b[q] = b'Q';
        if next(2) == 0 {
            let r = next(64);
            if b[r] == b'.' {
                b[r] = b'R';
            }
        }
        if next(3) == 0 {
            let s = 8 + next(40);
            if b[s] == b'.' {
                b[s] = b'p';
            }
        }
        let p = Pos { b, white: true, cr: [false; 4], ep: None };
        if p.sane() && !p.legal().is_empty() {
            return Some(if next(2) == 0 { p } else { p.mirror() });
        }
    }
    None
}

fn engine_game(line: &Line) -> Result<Game, Fail> {
    let mut g = Game::new(&line.start.fen6()).map_err(|e| Fail::new("sane-position-not-importable", e.to_string()))?;
    for m in &line.moves {
        let Some(em) = eng::find_legal(&mut g, &m.uci()) else {
            return Err(Fail::new("legal-move-not-offered", format!("{} in {}", m.uci(), g.fen())));
        };
        g.push_history(em);
    }
    Ok(g)
}

/// Replay a printed principal variation through the model
fn pv_playable(p: &Pos, pv: &[String]) -> Result<(), (usize, String)> {
    let mut q = p.clone();
    for (i, t) in pv.iter().enumerate() {
        match q.legal().into_iter().find(|m| &m.uci() == t) {
            Some(m) => q = q.make(m),
            None => return Err((i, q.fen4())),
        }
    }
    Ok(())
}

impl Hist {
    fn judge_search(&self, p: &Pos, history_text: &str, depth: u8, best: &Option<String>, lines: &[String], table_had_root: bool, repetition: bool, step_no: usize, ev: &mut Ev) -> Result<(), Fail> {
        if std::env::var("VCHECK_DEBUG").is_ok() {
            eprintln!("[debug] step {} : {} ; go depth {} -> {:?} ; depths {:?} scores {:?}", step_no, history_text, depth, best, crate::uci::info_depths(lines), lines.iter().filter_map(|l| l.strip_prefix("info score cp ")).collect::<Vec<_>>());
        }
        let legal: Vec<String> = p.legal().iter().map(|m| m.uci()).collect();
        match self.which {
            Which::C06 => {
                ev.eval();
                match best {
                    None => {
                        if !legal.is_empty() {
                            return Err(Fail::new("no-move-announced-although-moves-are-legal", format!("search {} ({} depth {}): no move; legal {:?}", step_no, history_text, depth, legal)));
                        }
                        ev.class("dead_roots");
                    }
                    Some(m) => {
                        if !legal.contains(m) {
                            return Err(Fail::new("announced-move-is-illegal", format!("search {} ({} depth {}): announced {} ; position {} ; legal {:?}", step_no, history_text, depth, m, p.fen4(), legal)));
                        }
                    }
                }
                if table_had_root || legal.len() <= 2 || repetition {
                    if table_had_root {
                        ev.class("searches_with_cached_root");
                    }
                    if legal.len() <= 2 {
                        ev.class("searches_with_1_or_2_legal_moves");
                    }
                    if repetition {
                        ev.class("searches_with_repetition_pattern");
                    }
                    ev.nontrivial(mix(fp_pos(p) ^ fp_bytes(history_text.as_bytes()) ^ depth as u64), || json!({"history": history_text, "depth": depth, "bestmove": best, "cached_root": table_had_root, "legal_moves": legal.len(), "repetition_pattern": repetition}));
                }
            }
            Which::C18 => {
                for pv in uci::info_pvs(lines) {
                    ev.eval();
                    if let Err((i, at)) = pv_playable(p, &pv) {
                        return Err(Fail::new(
                            "principal-variation-not-playable",
                            format!("search {} ({} depth {}): printed pv {:?}; move {} ({}) is not legal in {}", step_no, history_text, depth, pv, i + 1, pv[i], at),
                        ));
                    }
                    if pv.len() >= 2 && table_had_root {
                        ev.class("pv_lines_len_ge_2_with_warm_table");
                        ev.nontrivial(mix(fp_pos(p) ^ fp_bytes(pv.join(" ").as_bytes())), || json!({"history": history_text, "depth": depth, "pv": pv}));
                    }
                    if pv.len() >= 2 {
                        ev.class("pv_lines_len_ge_2");
                    } else {
                        ev.class("pv_lines_len_0_1");
                    }
                }
            }
        }
        Ok(())
    }

    fn run(&self, case: &HistCase, ev: &mut Ev) -> Result<(), Fail> {
        let Some(start) = case.start.pos() else {
            ev.skip("construction did not yield a sane position");
            return Ok(());
        };
        if !search_friendly(&start) {
            ev.skip(SKIP_HEAVY);
            return Ok(());
        }
        let mut line = Line { start, moves: Vec::new() };
        let mut table = srch::new_table();
        let mut sess = if case.via_uci { Some(Session::start(&[]).map_err(|e| Fail::new("harness", e))?) } else { None };
        if sess.is_some() {
            ev.class("uci_histories");
        } else {
            ev.class("in_process_histories");
        }
        for (i, st) in case.steps.iter().enumerate() {
            let mut repetition = false;
            let mut stop_after: Option<i64> = None;
            // depth of the search that precedes the probing of cached descendants (None: depth + 2, at most 5)
            let mut deep: Option<u8> = None;
            match st.nav % 10 {
                0 => line.extend(&st.picks),
                1 => {
                    let k = (st.back as usize).min(line.moves.len());
                    line.moves.truncate(line.moves.len() - k);
                    line.extend(&st.picks);
                }
                2 => {
                    line.extend(&st.picks);
                    let before = line.moves.len();
                    line.shuffle(Pick { kind: 0, idx: st.root });
                    repetition = line.moves.len() > before;
                }
                3 => {
                    let idx = st.root as usize % CURATED.len();
                    line = Line { start: Pos::from_fen(CURATED[idx]).unwrap(), moves: Vec::new() };
                    line.extend(&st.picks);
                }
                5 => {
                    // perpetual-check roots: a forced cycle from here, else from a curated perpetual position
                    line.extend(&st.picks);
                    if !line.forced_cycle() {
                        let roots = PERPETUAL;
                        line = Line { start: Pos::from_fen(roots[st.root as usize % roots.len()]).unwrap(), moves: Vec::new() };
                        if st.back % 2 == 1 {
                            // some history first, so that the table already knows the neighbourhood
                            let _ = line.forced_cycle();
                            line.moves.truncate(4);
                        }
                        repetition = line.forced_cycle();
                    } else {
                        repetition = true;
                    }
                    if repetition {
                        ev.class("forced_cycle_roots");
                    }
                }
                6 => {
                    // dead-root hunt: search the position BEFORE a mating / stalemating move (depth 3-4, so the
                    // dead position is an interior node of that search), then make the move and search the dead root
                    line.extend(&st.picks);
                    let mut p0 = line.pos();
                    let mut killer = p0.legal().into_iter().find(|&m| p0.make(m).legal().is_empty());
                    if killer.is_none() {
                        line = Line { start: Pos::from_fen(MATE_ROOTS[st.root as usize % MATE_ROOTS.len()]).unwrap(), moves: Vec::new() };
                        p0 = line.pos();
                        killer = p0.legal().into_iter().find(|&m| p0.make(m).legal().is_empty());
                    }
                    if let (Some(k), None) = (killer, sess.as_ref()) {
                        let g0 = engine_game(&line)?;
                        let d0 = 3 + st.back % 3;
                        let out = srch::run_search(&g0, &mut table, Some(d0), 30_000);
                        if let Some(pn) = out.panicked {
                            return Err(Fail::new("panic", format!("search of {} : {}", p0.fen4(), pn)));
                        }
                        let text0 = format!("position fen {} moves {}", line.start.fen6(), moves_text(&line.moves));
                        self.judge_search(&p0, &text0, d0, &out.best, &out.lines, false, false, i, ev)?;
                        line.moves.push(k);
                        ev.class("dead_roots_after_a_search_of_the_parent");
                    } else if let Some(k) = killer {
                        if let Some(s) = sess.as_mut() {
                            s.send(&format!("position fen {} moves {}", line.start.fen6(), moves_text(&line.moves)));
                            s.send(&format!("go depth {}", 3 + st.back % 3));
                            let _ = s.read_until(|l| l.starts_with("bestmove"), 20_000);
                            s.send("wait");
                        }
                        line.moves.push(k);
                        ev.class("dead_roots_after_a_search_of_the_parent");
                    }
                }
                7 => {
                    line.extend(&st.picks);
                    stop_after = Some((st.root % 160) as i64);
                }
                8 if sess.is_none() => {
                    // mating attack: a generated K+Q(+R) v K(+P) root is searched to depth 5-7 (not stopped); afterwards every
                    // cached child and grandchild - positions the mate search visited off its principal line - is
                    // searched as a root of its own with the table that search left
                    if let Some(root) = mating_root(st.root, st.back) {
                        line = Line { start: root, moves: Vec::new() };
                        stop_after = Some(-1);
                        deep = Some(5 + st.back % 3);
                        ev.class("mating_attack_roots");
                    } else {
                        line.extend(&st.picks);
                    }
                }
                8 => line.extend(&st.picks),
                9 if sess.is_none() => {
                    // state twins: a generated position with a capturable en-passant file (and often castling rights) is
                    // searched first; the step then goes on with the SAME placement and side but without the en-passant
                    // file, or without one of the castling rights. If the table cannot tell the twins apart, the move cached
                    // for the first (an en-passant capture, a castling move) is announced for the second, where it is illegal.
                    if let Some(first) = twin_source(st.root, st.back) {
                        let l1 = Line { start: first.clone(), moves: Vec::new() };
                        let g1 = engine_game(&l1)?;
                        let d1 = (st.depth.clamp(1, 4)) + 1;
                        let out = srch::run_search(&g1, &mut table, Some(d1), 30_000);
                        let text1 = format!("position fen {}", first.fen6());
                        if let Some(pn) = out.panicked {
                            return Err(Fail::new("panic", format!("search {} ({} depth {}): {}", i, text1, d1, pn)));
                        }
                        self.judge_search(&first, &text1, d1, &out.best, &out.lines, false, false, i, ev)?;
                        let mut twin = first.clone();
                        let rights: Vec<usize> = (0..4).filter(|&k| twin.cr[k]).collect();
                        if st.back % 2 == 0 || rights.is_empty() {
                            twin.ep = None;
                        } else {
                            twin.cr[rights[st.root as usize % rights.len()]] = false;
                        }
                        ev.class("state_twin_steps");
                        line = Line { start: twin, moves: Vec::new() };
                    } else {
                        line.extend(&st.picks);
                    }
                }
                9 => line.extend(&st.picks),
                _ => {
                    table.clear();
                    if let Some(s) = sess.as_mut() {
                        s.send("ucinewgame");
                    }
                    ev.class("ucinewgame_steps");
                    line.extend(&st.picks);
                }
            }
            let p = line.pos();
            if !search_friendly(&p) {
                ev.skip(SKIP_HEAVY);
                return Ok(());
            }
            let depth = st.depth.clamp(1, 5);
            let history_text = format!("position fen {} moves {}", line.start.fen6(), moves_text(&line.moves));
            match sess.as_mut() {
                None => {
                    let g = engine_game(&line)?;
                    let had = table.contains_key(&g.hash());
                    if let Some(n) = stop_after {
                        // a search of this position that is STOPPED after n node-entry polls also leaves entries
                        // behind; afterwards every cached child / grandchild is searched as a root of its own
                        srch::hooks::reset(n, false);
                        let out = srch::run_search(&g, &mut table, Some(deep.unwrap_or((depth + 2).min(5))), 30_000);
                        srch::hooks::reset(-1, false);
                        if let Some(pn) = out.panicked {
                            return Err(Fail::new("panic", format!("stopped search {} ({}): {}", i, history_text, pn)));
                        }
                        ev.class(if n >= 0 { "stopped_searches_in_histories" } else { "deep_mate_searches_in_histories" });
                        let max_probes = if n >= 0 { 10 } else { 150 };
                        let mut probes = 0;
                        'probe: for m1 in p.legal() {
                            let q1 = p.make(m1);
                            let mut cands = vec![(vec![m1], q1.clone())];
                            if n >= 0 {
                                for m2 in q1.legal().into_iter().take(6) {
                                    cands.push((vec![m1, m2], q1.make(m2)));
                                }
                            } else {
                                // after a mate search: the nodes where the DEFENDER is to move, one and three plies down
                                for m2 in q1.legal() {
                                    let q2 = q1.make(m2);
                                    for m3 in q2.legal() {
                                        cands.push((vec![m1, m2, m3], q2.make(m3)));
                                    }
                                }
                            }
                            for (path, q) in cands {
                                let mut l2 = Line { start: line.start.clone(), moves: line.moves.clone() };
                                l2.moves.extend(path.iter().copied());
                                let g2 = engine_game(&l2)?;
                                if !table.contains_key(&g2.hash()) || !search_friendly(&q) {
                                    continue;
                                }
                                probes += 1;
                                let d2 = 1 + (probes % 3) as u8;
                                let how = if n >= 0 { format!("stopped at poll {}", n) } else { format!("to depth {}", deep.unwrap_or(0)) };
                                let text2 = format!("(after a search of {} {}) position fen {} moves {}", history_text, how, l2.start.fen6(), moves_text(&l2.moves));
                                let o2 = srch::run_search(&g2, &mut table, Some(d2), 30_000);
                                if let Some(pn) = o2.panicked {
                                    return Err(Fail::new("panic", format!("{} : {}", text2, pn)));
                                }
                                self.judge_search(&q, &text2, d2, &o2.best, &o2.lines, true, false, i, ev)?;
                                if probes >= max_probes {
                                    break 'probe;
                                }
                            }
                        }
                        ev.class_n("cached_descendants_probed_after_a_stopped_search", probes as u64);
                    }
                    let out = srch::run_search(&g, &mut table, Some(depth), 30_000);
                    if let Some(pn) = out.panicked {
                        return Err(Fail::new("panic", format!("search {} ({} depth {}): {}", i, history_text, depth, pn)));
                    }
                    if out.watchdog_fired {
                        ev.inconclusive("depth-limited search had to be stopped by the watchdog (termination is C08's business)");
                    }
                    self.judge_search(&p, &history_text, depth, &out.best, &out.lines, had, repetition, i, ev)?;
                }
                Some(s) => {
                    s.send(&history_text);
                    s.send(&format!("go depth {}", depth));
                    let mut stopped = false;
                    let mut lines = match s.read_until(|l| l.starts_with("bestmove"), 20_000) {
                        Some(l) => l,
                        None => {
                            // still running: stop it (C08 judges termination), keep judging legality
                            stopped = true;
                            s.send("stop");
                            match s.read_until(|l| l.starts_with("bestmove"), 10_000) {
                                Some(l) => l,
                                None => {
                                    let tail = s.transcript_tail(6);
                                    return Err(Fail::new("no-bestmove", format!("search {} ({} depth {}): nothing after stop ({})", i, history_text, depth, tail)));
                                }
                            }
                        }
                    };
                    if stopped {
                        ev.inconclusive("depth-limited search had to be stopped (termination is C08's business)");
                    }
                    s.send("wait");
                    s.send("isready");
                    if let Some(more) = s.read_until(|l| uci::readyok(l), 10_000) {
                        lines.extend(more);
                    }
                    if lines.iter().any(|l| l.starts_with("error:")) {
                        return Err(Fail::new("harness", format!("engine refused the script: {:?}", lines.iter().find(|l| l.starts_with("error:")))));
                    }
                    let bm = uci::bestmove_of(&lines);
                    let best = match bm.as_deref() {
                        Some("none") | None => None,
                        Some(m) => Some(m.to_string()),
                    };
                    // the first printed depth above 1 means the root was cached
                    let had = uci::info_depths(&lines).first().copied().unwrap_or(1) > 1 || i > 0;
                    self.judge_search(&p, &history_text, depth, &best, &lines, had, repetition, i, ev)?;
                }
            }
            if line.pos().legal().is_empty() {
                // game over: continue from the position before the last move
                line.moves.pop();
            }
        }
        if let Some(s) = sess {
            s.quit();
        }
        Ok(())
    }
}

impl Prop for Hist {
    type Case = HistCase;

    fn id(&self) -> &'static str {
        match self.which {
            Which::C06 => "C06",
            Which::C18 => "C18",
        }
    }

    fn enumerate(&self, ctx: &Ctx, ev: &mut Ev, report: &mut dyn FnMut(HistCase, Fail)) {
        if self.which != Which::C18 {
            return;
        }
        // roots whose best line STARTS with an under-promotion and goes on: themed promotion positions (C10's
        // construction) in which every key of the forced mate in two is a promotion to knight, bishop or rook
        let n = ctx.tier.pick(120_000, 1_500_000) as u64;
        for i in 0..n {
            if !ctx.owns(i) {
                continue;
            }
            let bytes: Vec<u8> = (0..20u64).map(|k| (mix(i * 31 + k) >> 11) as u8).collect();
            let Some(p) = crate::props::c10::build_themed(1, &bytes, (i % 4) as u8) else { continue };
            if !search_friendly(&p) || !mate_in_1_moves(&p).is_empty() {
                continue;
            }
            // (cheap pre-filter: some under-promotion must be legal at all)
            if !p.legal().iter().any(|m| m.promo != 0 && m.promo != b'q') {
                continue;
            }
            let keys = mate_in_2_moves(&p);
            if keys.is_empty() || !keys.iter().all(|m| m.promo != 0 && m.promo != b'q') {
                continue;
            }
            ev.class("roots_whose_mate_in_two_starts_with_an_under_promotion");
            for depth in [4u8, 5] {
                let case = HistCase { start: Start::Fen(p.fen6()), steps: vec![Step { nav: 0, back: 0, picks: vec![], root: 0, depth }], via_uci: false };
                if let Err(f) = self.check(ctx, &case, ev) {
                    report(case, f);
                    return;
                }
            }
        }
    }

    fn rule(&self) -> String {
        let common = "Cases (stateful): a start position and 1-8 steps; each step navigates the game (extend by generated picks / take back 0-3 plies and extend / add an a-b-a-b shuffle so that the repetition filter triggers / jump to another curated root / ucinewgame / a forced four-ply cycle (perpetual check) so that the root has a single legal move which is also the move the repetition filter removes / search the parent of a mating or stalemating move to depth 3-5 and then the dead position itself / a search STOPPED by the hook after 0-159 polls followed by searches of every cached child and grandchild as roots of their own / a generated K+Q(+R) v K(+P) root searched to depth 5-7 followed by searches of up to 150 cached positions one and three plies further down - where the defender is to move and which the mate search visited off its principal line / state twins: a generated position with a legal en-passant capture is searched, then the same placement without the en-passant file or without one castling right, sharing the table) and then searches the reached position to depth 1-5, all steps sharing ONE transposition table, in-process (get_best_move_until_stop on a game built with push_history) or, for about 1 history in 6, through the real binary (`position fen … moves …`, `go depth d`, `wait`). ";
        match self.which {
            Which::C06 => format!("{}Oracle: the announced move is a legal move of the reference model's position; no move is announced iff the model has no legal move. evaluations = searches judged. Non-trivial search: the table already held an entry for the root when the search started, or the root has 1-2 legal moves, or a repetition pattern is present in the game record; distinct by (history, depth).", common),
            Which::C18 => format!("{}Oracle: every `info pv m1 … mk` line printed during a search of position P replays in the reference model: m1 legal in P, m2 legal in P·m1, … Every tier also searches (depth 4 and 5, fresh table) the roots among 120 000 (thorough 1.5 million) themed promotion constructions in which every key of the forced mate in two is an under-promotion, so that printed lines start with a promotion to knight, bishop or rook and go on from the promoted piece. evaluations = pv lines judged. Non-trivial line: k >= 2 and the table held entries from an earlier search; distinct by (position, line).", common),
        }
    }

    fn assumptions(&self) -> Vec<String> {
        vec![
            "searches are bounded by `go depth`; a search that has to be stopped is counted as inconclusive here (C08 decides termination) but its move / lines are still judged".into(),
            "trusted base: reference model".into(),
        ]
    }

    fn cases(&self, tier: Tier) -> u32 {
        tier.pick(6_000, 100_000)
    }

    fn shard_timeout_s(&self, tier: Tier) -> u64 {
        tier.pick(900, 7200)
    }

    fn strategy(&self, _ctx: &Ctx) -> BoxedStrategy<HistCase> {
        (start_strategy(), vec(step_strategy(), 1..9), prop::bool::weighted(0.15)).prop_map(|(start, steps, via_uci)| HistCase { start, steps, via_uci }).boxed()
    }

    fn check(&self, _ctx: &Ctx, case: &HistCase, ev: &mut Ev) -> Result<(), Fail> {
        self.run(case, ev)
    }
}
