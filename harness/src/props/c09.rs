//! C09: pruning and move ordering never change the search result.

use crate::eng::{self, Game, Move, MoveBuf};
use crate::ev::*;
use crate::gen::*;
use crate::refchess::Pos;
use crate::runner::{Ctx, Prop};
use crate::srch;
use proptest::prelude::*;
use serde::{Deserialize, Serialize};
use serde_json::json;
use std::sync::atomic::AtomicBool;

type Score = i16;

#[derive(Serialize, Deserialize, Clone, Debug)]
pub struct TreeCase {
    pub walk: Walk,
    pub depth: u8,
    /// pre-filled history table: (index, value) pairs; empty = fresh
    pub history: Vec<(u16, u16)>,
    /// compare at EVERY position along the walk, at depth 1 and 2 alternately (cheap trees in large numbers: an
    /// error of the capture search or of the depth-1 layer shows at any depth, but only for rare geometries)
    #[serde(default)]
    pub along: bool,
}

pub struct C09;

pub const NODE_BUDGET: u64 = 700_000;
/// budget for the many shallow trees along a walk
pub const SHALLOW_BUDGET: u64 = 25_000;

/// Exhaustive, unordered, unpruned negamax on the engine's own generator and score with the same
/// leaf rules as the optimised search.
pub struct Reference {
    pub nodes: u64,
    /// a quiescence node with a king on the board but no generated move (window-dependent by construction)
    pub weird: bool,
    pub q_captures: u64,
    /// terminal nodes met: [interior mate, interior stalemate, depth-1 layer mate, depth-1 layer stalemate, quiescence king-less]
    pub terminals: [u64; 5],
    pub max_q_ply: u8,
    /// node budget of this walk (trees above it are skipped and counted)
    pub budget: u64,
}

impl Reference {
    fn q(&mut self, g: &mut Game, rd: u8) -> i32 {
        self.nodes += 1;
        if self.nodes > self.budget {
            return 0;
        }
        let stand_pat = g.score() as i32 * (g.player() as i32);
        let player = g.player();
        let moves: MoveBuf = eng::moves(g, false);
        if moves.is_empty() {
            if g.king_exists(player) {
                self.weird = true;
            }
            if g.king_exists(player) && !g.is_targeted(g.get_king_position(player), player) {
                return 0;
            }
            self.terminals[4] += 1;
            return Score::MIN as i32 + 3000 + rd as i32;
        }
        if rd > self.max_q_ply {
            self.max_q_ply = rd;
        }
        let mut best = stand_pat;
        for &m in &moves {
            if !m.is_tactical_move() {
                continue;
            }
            self.q_captures += 1;
            g.push(m);
            let v = -self.q(g, rd + 1);
            g.pop(m);
            if v > best {
                best = v;
            }
        }
        best
    }

    fn d1(&mut self, g: &mut Game, rd: u8) -> i32 {
        self.nodes += 1;
        let player = g.player();
        let moves: MoveBuf = eng::moves(g, false);
        if moves.is_empty() {
            if g.king_exists(player) && !g.is_targeted(g.get_king_position(player), player) {
                self.terminals[3] += 1;
                return 0;
            }
            self.terminals[2] += 1;
            return Score::MIN as i32 + 2000 + rd as i32;
        }
        let mut best = i32::MIN;
        for &m in &moves {
            g.push(m);
            let v = -self.q(g, rd + 1);
            g.pop(m);
            if v > best {
                best = v;
            }
        }
        best
    }

    pub fn n(&mut self, g: &mut Game, rem: u8, rd: u8) -> i32 {
        if rem == 1 {
            return self.d1(g, rd);
        }
        if rem == 0 {
            return self.q(g, rd);
        }
        self.nodes += 1;
        if self.nodes > self.budget {
            return 0;
        }
        let player = g.player();
        let moves: MoveBuf = eng::moves(g, true);
        if moves.is_empty() {
            if g.king_exists(player) && !g.is_targeted(g.get_king_position(player), player) {
                self.terminals[1] += 1;
                return 0;
            }
            self.terminals[0] += 1;
            return Score::MIN as i32 + 100 + rd as i32;
        }
        let mut best = i32::MIN;
        for &m in &moves {
            g.push(m);
            let v = -self.n(g, rem - 1, rd + 1);
            g.pop(m);
            if v > best {
                best = v;
            }
        }
        best
    }

    /// Root: always the checked list, children searched to depth-1
    pub fn root(&mut self, g: &mut Game, depth: u8) -> i32 {
        let moves: MoveBuf = eng::moves(g, true);
        let mut best = i32::MIN;
        for &m in &moves {
            g.push(m);
            let v = -self.n(g, depth - 1, 1);
            g.pop(m);
            if v > best {
                best = v;
            }
        }
        best
    }
}

pub fn clamp(v: i32) -> i32 {
    v.clamp(-15000, 15000)
}

fn engine_score(g: &Game, depth: u8, history: &mut [u16; 768]) -> Result<(Option<Move>, i32), Fail> {
    let flag = AtomicBool::new(true);
    let mut table = srch::new_table();
    srch::hooks::reset(-1, true);
    let r = eng::guarded(|| srch::get_best_move_entry(g.clone(), &flag, depth, &mut table, history));
    srch::hooks::reset(-1, false);
    match r {
        Err(p) => Err(Fail::new("panic", format!("search of {} depth {} : {}", g.fen(), depth, p))),
        Ok(None) => Err(Fail::new("search-aborted-without-stop", format!("{} depth {}", g.fen(), depth))),
        Ok(Some((m, s, _))) => Ok((m, s as i32)),
    }
}

impl Prop for C09 {
    type Case = TreeCase;

    fn id(&self) -> &'static str {
        "C09"
    }

    fn rule(&self) -> String {
        "Cases: (a) every position along a generated walk at depth 1 and 2 alternately (5 cases in 11: cheap trees in large numbers, about 10^5 in the quick tier, for the rare capture geometries in which an unsound pruning rule of the capture search or the depth-1 layer would show); (b) the end position of a generated walk (capture-biased picks so that quiescence matters; curated endgames included) imported from text, depth 1-4 (5-6 for positions with at most six men, up to 8 for at most four men; 2 cases in 13 are such tiny positions at depth 5-8), history table fresh or pre-filled with generated values. With the node-entry hook emptying the transposition table at every node, get_best_move_entry(..).score must equal an exhaustive negamax written in the harness on the engine's own move generator and score with the same leaf rules (interior: checked list, mate = MIN+100+ply, stalemate 0; depth-1 layer: unchecked list, MIN+2000+ply; quiescence: stand-pat, tactical moves of the unchecked list, MIN+3000+ply when nothing is generated), both clamped to ±15000; and the score with a pre-filled history table must equal the score with a fresh one. Roots with fewer than two legal moves (single-reply shortcut), trees containing a quiescence node with a king but no generated move, and reference trees above 700 000 nodes (25 000 for the shallow trees of (a)) are skipped and counted. evaluations = trees compared. Non-trivial tree: depth >= 2 and at least one tactical move searched in quiescence; distinct by (position, depth).".into()
    }

    fn assumptions(&self) -> Vec<String> {
        vec![
            "the reference uses the engine's generator and score (C01/C16 judge those); it shares no search code".into(),
            "table lookups are disabled through the verification hook (table emptied at every node entry), as the statement prescribes".into(),
        ]
    }

    fn cases(&self, tier: Tier) -> u32 {
        tier.pick(13_000, 260_000)
    }

    fn shard_timeout_s(&self, tier: Tier) -> u64 {
        tier.pick(900, 7200)
    }

    fn strategy(&self, _ctx: &Ctx) -> BoxedStrategy<TreeCase> {
        let depth = prop_oneof![1 => Just(1u8), 3 => Just(2u8), 3 => Just(3u8), 2 => Just(4u8), 1 => Just(5u8), 1 => Just(6u8)];
        let hist = prop_oneof![1 => Just(Vec::new()), 1 => proptest::collection::vec((0u16..768, 0u16..9500), 1..200)];
        prop_oneof![
            6 => (walk_strategy(false), depth, hist).prop_map(|(walk, depth, history)| TreeCase { walk, depth, history, along: false }),
            5 => (walk_strategy(false), 0u8..2).prop_map(|(walk, depth)| TreeCase { walk, depth, history: Vec::new(), along: true }),
            // kings and one or two men, depth 5-8: lines long enough to come back to a position of the same line
            2 => (0u8..64, 0u8..64, proptest::collection::vec((any::<u8>(), 0u8..64), 1..3), any::<bool>(), proptest::collection::vec(pick_strategy(), 0..6), 5u8..9).prop_map(|(wk, bk, men, white, picks, depth)| TreeCase {
                walk: Walk { start: Start::Built(Construct { home: 0, wk, bk, men, white, cr: 0, ep: 0 }), picks },
                depth,
                history: Vec::new(),
                along: false,
            }),
        ]
        .boxed()
    }

    fn check(&self, _ctx: &Ctx, case: &TreeCase, ev: &mut Ev) -> Result<(), Fail> {
        let Some(r) = resolve_walk(&case.walk) else {
            ev.skip("construction did not yield a sane position");
            return Ok(());
        };
        if case.along {
            let mut p = r.start.clone();
            for (i, m) in r.moves.iter().enumerate() {
                p = p.make(*m);
                ev.class("shallow_trees_along_a_walk");
                self.compare(&p, 1 + (i as u8 + case.depth) % 2, &[], SHALLOW_BUDGET, ev)?;
            }
            return Ok(());
        }
        self.compare(&r.end, case.depth, &case.history, if case.depth >= 7 { NODE_BUDGET / 4 } else { NODE_BUDGET }, ev)
    }
}

impl C09 {
    fn compare(&self, p: &Pos, case_depth: u8, case_history: &[(u16, u16)], budget: u64, ev: &mut Ev) -> Result<(), Fail> {
        if p.legal().len() < 2 {
            ev.skip("root has fewer than two legal moves (single-reply shortcut returns 0 by design)");
            return Ok(());
        }
        if !search_friendly(p) {
            ev.skip(SKIP_HEAVY);
            return Ok(());
        }
        let fen = p.fen6();
        let g = Game::new(&fen).map_err(|e| Fail::new("sane-position-not-importable", e.to_string()))?;
        // depth 5 and 6 only where the exhaustive reference is still feasible: at most six men
        let depth = if p.men() <= 4 { case_depth.clamp(1, 8) } else if p.men() <= 6 { case_depth.clamp(1, 6) } else { case_depth.clamp(1, 4) };
        let mut rf = Reference { nodes: 0, weird: false, q_captures: 0, terminals: [0; 5], max_q_ply: 0, budget };
        let mut gc = g.clone();
        let want = match eng::guarded(|| rf.root(&mut gc, depth)) {
            Ok(v) => v,
            Err(p) => return Err(Fail::new("panic", format!("reference walk of {} : {}", fen, p))),
        };
        if rf.nodes > rf.budget {
            ev.skip("reference tree above the node budget");
            return Ok(());
        }
        if rf.weird {
            ev.skip("tree contains a quiescence node with a king but no generated move");
            return Ok(());
        }
        let mut fresh = [0u16; 768];
        let (_, got) = engine_score(&g, depth, &mut fresh)?;
        ev.eval();
        ev.class(&format!("depth_{}", depth));
        if clamp(want).abs() == 15000 {
            ev.class("mate_range_score");
        }
        for (i, name) in ["tree_with_checkmate_at_an_interior_node", "tree_with_stalemate_at_an_interior_node", "tree_with_no_move_in_check_at_the_depth_1_layer", "tree_with_no_move_not_in_check_at_the_depth_1_layer", "tree_with_king_captured_in_quiescence"].iter().enumerate() {
            if rf.terminals[i] > 0 {
                ev.class(name);
            }
        }
        if rf.max_q_ply >= depth + 4 {
            ev.class("tree_with_capture_sequences_of_4_or_more_plies_below_the_horizon");
        }
        if p.in_check(p.white) {
            ev.class("root_in_check");
        }
        if clamp(got) != clamp(want) {
            return Err(Fail::new(
                "optimised-search-score-differs-from-exhaustive-search",
                format!("{} depth {} : engine (table off) {} , exhaustive reference {}", fen, depth, got, want),
            ));
        }
        if !case_history.is_empty() {
            let mut h = [0u16; 768];
            for &(i, v) in case_history {
                h[i as usize % 768] = v;
            }
            let (_, got2) = engine_score(&g, depth, &mut h)?;
            ev.class("prefilled_history_runs");
            if clamp(got2) != clamp(want) {
                return Err(Fail::new(
                    "score-depends-on-move-ordering",
                    format!("{} depth {} : with a pre-filled history table {} , exhaustive reference {}", fen, depth, got2, want),
                ));
            }
        }
        if depth >= 2 && rf.q_captures > 0 {
            ev.nontrivial(mix(fp_pos(p) ^ depth as u64), || json!({"position": fen, "depth": depth, "score": got, "reference_nodes": rf.nodes, "tactical_moves_in_quiescence": rf.q_captures}));
        }
        Ok(())
    }
}
