//! C14: each `go` gets exactly one `bestmove`; the session never wedges or dies.
//! Model-based generation of UCI command sequences with controlled timing and stretched schedule points.

use crate::ev::*;
use crate::gen::*;
use crate::runner::{Ctx, Prop};
use crate::uci::Session;
use proptest::collection::vec;
use proptest::prelude::*;
use serde::{Deserialize, Serialize};
use serde_json::json;
use std::time::{Duration, Instant};

pub const POINTS: &[&str] = &[
    "before_flag_raise",
    "after_flag_raise",
    "timer_wakeup",
    "before_search_spawn",
    "search_thread_start",
    "after_search_return",
    "after_flag_clear",
    "after_game_drop",
    "after_bestmove_print",
];

pub const POSITIONS: &[&str] = &[
    "startpos",
    "startpos moves e2e4",
    "startpos moves e2e4 e7e5 g1f3",
    "fen r3k2r/p1ppqpb1/bn2pnp1/3PN3/1p2P3/2N2Q1p/PPPBBPPP/R3K2R w KQkq - 0 1",
    "fen r4rk1/1pp1qppp/p1np1n2/2b1p1B1/2B1P1b1/P1NP1N2/1PP1QPPP/R4RK1 w - - 0 10",
    "fen 8/2p5/3p4/KP5r/1R3p1k/8/4P1P1/8 w - - 0 1",
];

/// Roots without a legal move (stalemate, two checkmates), all given as FEN: every kind of go ends there at once
/// and must still be answered with exactly one bestmove line (`bestmove none`)
pub const DEAD: &[&str] = &["fen 7k/5Q2/6K1/8/8/8/8/8 b - - 0 1", "fen rnb1kbnr/pppp1ppp/8/4p3/6Pq/5P2/PPPPP2P/RNBQKBNR w KQkq - 1 3", "fen R5k1/5ppp/8/8/8/8/8/6K1 b - - 0 1"];

#[derive(Serialize, Deserialize, Clone, Debug)]
pub struct Intent {
    /// what the GUI would like to do next; mapped onto a command that is unambiguous in the current state
    pub what: u8,
    pub a: u16,
    pub b: u16,
    /// delay before sending: index into 0/1/5/20/100 ms
    pub delay: u8,
}

#[derive(Serialize, Deserialize, Clone, Debug)]
pub struct SessionCase {
    /// (schedule point index, delay class 0 = none / 1 = 20 ms / 2 = 100 ms)
    pub sched: Vec<(u8, u8)>,
    pub intents: Vec<Intent>,
    /// replay files of race failures ask for the session to be repeated until it fails (at most this often)
    #[serde(default)]
    pub repeat: u16,
    /// Some(L): not a generated session but the record-length case - `position startpos moves <L plies of a knight
    /// shuffle>`, `go depth 2`, which must be answered (every L from 0 to 398 is tried in every tier)
    #[serde(default)]
    pub record_len: Option<u16>,
}

pub struct C14;

const GRACE_MS: u64 = 3_000;
/// intents with `what` at or above this value are, while a search with an end of its own is running, the
/// impatient GUI's early position + go (values below keep the meaning they have in the committed replay files)
const EARLY_GO: u8 = 66;
/// intents that first send a line the engine does not know, then behave like `isready`
const NOISE: [u8; 2] = [132, 198];
const DELAYS: [u64; 5] = [0, 1, 5, 20, 100];

#[derive(Clone, Debug)]
enum Searching {
    Depth,
    /// clock-derived budget (upper bound only)
    Timed(u64),
    /// explicit `go movetime T`: the answer must come after the budget, not before it
    MoveTime(u64),
    Infinite,
}

impl C14 {
    fn run(&self, case: &SessionCase, ev: &mut Ev) -> Result<(), Fail> {
        // schedule-point delays
        let mut delays: Vec<(String, u64)> = Vec::new();
        for &(pt, cls) in &case.sched {
            let name = POINTS[pt as usize % POINTS.len()];
            let ms = match cls % 3 {
                0 => 0,
                1 => 20,
                _ => 100,
            };
            if ms > 0 && !delays.iter().any(|(n, _)| n == name) {
                delays.push((name.to_string(), ms));
            }
        }
        let hook_total: u64 = delays.iter().map(|d| d.1).sum();
        let env: Vec<(String, String)> = if delays.is_empty() { vec![] } else { vec![("VERIF_SCHED".to_string(), delays.iter().map(|(n, m)| format!("{}={}", n, m)).collect::<Vec<_>>().join(","))] };
        let mut s = Session::start(&env).map_err(|e| Fail::new("harness", e))?;
        let grace = GRACE_MS + 2 * hook_total;

        let mut game = false;
        // the position set is one of DEAD
        let mut dead = false;
        let mut searching: Option<Searching> = None;
        let mut n_search = 0u32;
        let mut during = 0u32;
        let mut accepted_go = 0u32;
        let mut bestmoves = 0u32;
        let mut go_sent_at: Option<Instant> = None;

        macro_rules! fail {
            ($sig:expr, $($arg:tt)*) => {{
                let msg = format!($($arg)*);
                let tail = s.transcript_tail(14);
                let pan = s.panicked();
                let spliced = s.spliced_lines.clone();
                s.kill();
                if !spliced.is_empty() {
                    // decisive: a protocol line was spliced into another thread's output, so the GUI never sees it
                    let mut again = case.clone();
                    again.repeat = 400;
                    return Err(Fail::new("output-lines-interleaved", format!("{} | spliced output line(s) {:?} | sched {:?} | transcript: {}", msg, spliced, delays, tail)).decisive().with_case(serde_json::to_value(again).unwrap()));
                }
                return Err(Fail::new($sig, format!("{} | sched {:?} | panic {:?} | transcript: {}", msg, delays, pan, tail)));
            }};
        }
        // read until pred; counts bestmove lines seen on the way
        macro_rules! expect {
            ($pred:expr, $ms:expr) => {{
                let r = s.read_until($pred, $ms);
                if let Some(ls) = &r {
                    bestmoves += ls.iter().filter(|l| l.starts_with("bestmove")).count() as u32;
                }
                r
            }};
        }

        for it in &case.intents {
            let d = DELAYS[it.delay as usize % DELAYS.len()];
            if d > 0 {
                std::thread::sleep(Duration::from_millis(d));
            }
            ev.eval();
            if NOISE.contains(&it.what) {
                // lines a GUI may send that this engine does not know (or that are empty): nothing is expected back, the
                // session simply has to go on - the intent continues as an `isready` (both values are 0 mod 6 and mod 11)
                let line = ["", "   ", "xyzzy", "debug on", "setoption name Hash value 16", "ponderhit", "register later", "\t", "setoption name UCI_AnalyseMode value true", "joho"][it.a as usize % 10];
                s.send(line);
                ev.class("unknown_or_empty_lines_sent");
            }
            if searching.is_none() && (EARLY_GO..EARLY_GO + 12).contains(&it.what) {
                // the impatient GUI's pair: a go with a small budget of its own, and (below) the next go a moment later
                if !game || dead {
                    s.send(&format!("position {}", POSITIONS[(it.a / 7) as usize % POSITIONS.len()]));
                    game = true;
                    dead = false;
                }
                let (cmd, sr) = match it.a % 7 {
                    0 => ("go depth 1".to_string(), Searching::Depth),
                    1 => ("go depth 3".to_string(), Searching::Depth),
                    2 | 3 => {
                        let mt = [0u64, 1, 3, 5, 6, 8, 20][(it.a / 7) as usize % 7];
                        (format!("go movetime {}", mt), Searching::MoveTime(mt))
                    }
                    4 => ("go wtime 50 btime 50 winc 0 binc 0".to_string(), Searching::Timed(0)),
                    5 => ("go wtime 8000 btime 8000 winc 0 binc 0".to_string(), Searching::Timed(10)),
                    _ => ("go wtime 1000 btime 1000 winc 140 binc 140".to_string(), Searching::Timed(10)),
                };
                s.send(&cmd);
                go_sent_at = Some(Instant::now());
                searching = Some(sr);
                n_search += 1;
                accepted_go += 1;
                let pause_us = [0u64, 100, 1_000, 5_000, 20_000][(it.b / 4) as usize % 5];
                let t = Instant::now();
                while t.elapsed() < Duration::from_micros(pause_us) {
                    std::hint::spin_loop();
                }
            }
            match searching.clone() {
                None => match it.what % 11 {
                    0 => {
                        s.send("isready");
                        if expect!(|l| l == "readyok", grace).is_none() {
                            fail!("isready-unanswered", "isready unanswered while idle");
                        }
                    }
                    1 => {
                        s.send("uci");
                        if expect!(|l| l == "uciok", grace).is_none() {
                            fail!("uci-unanswered", "uci unanswered");
                        }
                    }
                    2 => {
                        s.send("show");
                        let ok = if game { expect!(|l| l.starts_with("   a b c"), grace).is_some() } else { expect!(|l| l.starts_with("error: No game"), grace).is_some() };
                        if !ok {
                            fail!("show-wrong", "show answered wrongly (game set: {})", game);
                        }
                    }
                    3 | 4 => {
                        dead = it.b % 4 == 3;
                        if dead {
                            s.send(&format!("position {}", DEAD[it.a as usize % DEAD.len()]));
                        } else {
                            s.send(&format!("position {}", POSITIONS[it.a as usize % POSITIONS.len()]));
                        }
                        game = true;
                        s.send("isready");
                        match expect!(|l| l == "readyok", grace) {
                            None => fail!("isready-unanswered", "isready after position unanswered"),
                            Some(ls) => {
                                if ls.iter().any(|l| l.starts_with("error")) {
                                    fail!("position-refused-while-idle", "position refused although no search is running: {:?}", ls);
                                }
                            }
                        }
                    }
                    5 | 6 | 7 => {
                        // a GUI normally sets the position first; two times in three do that here too
                        if !game && it.a % 3 != 0 {
                            s.send(&format!("position {}", POSITIONS[(it.a / 3) as usize % POSITIONS.len()]));
                            game = true;
                            dead = false;
                        }
                        if !game {
                            s.send("go depth 2");
                            if expect!(|l| l.starts_with("error: No game"), grace).is_none() {
                                fail!("go-without-game", "go without a game: expected an error line");
                            }
                        } else {
                            let kind = it.a % 6;
                            let (cmd, sr) = match kind {
                                0 | 1 => (format!("go depth {}", 1 + it.b % 4), Searching::Depth),
                                2 => {
                                    let mt = [0u64, 1, 3, 5, 8, 20, 60, 150, 400][it.b as usize % 9];
                                    (format!("go movetime {}", mt), Searching::MoveTime(mt))
                                }
                                5 => {
                                    // ends at the depth limit long before the time budget: its timer thread stays
                                    // asleep and wakes up during whatever is searched next
                                    // (the long ones: whatever still waits for that deadline must not hold up the next go)
                                    let mt = [300u64, 800, 1500, 60_000, 3_600_000][it.b as usize % 5];
                                    (format!("go depth {} movetime {}", 1 + it.b % 3, mt), Searching::Depth)
                                }
                                3 => {
                                    let t = [0u64, 50, 1000, 7000, 9000, 12000][it.b as usize % 6];
                                    let inc = [0u64, 0, 10, 100][(it.b / 8) as usize % 4];
                                    let budget = ((t as f64 * 0.02) as u64 + inc).saturating_sub(150).min(t);
                                    (format!("go wtime {} btime {} winc {} binc {}", t, t, inc, inc), Searching::Timed(budget))
                                }
                                _ => ("go infinite".to_string(), Searching::Infinite),
                            };
                            if dead {
                                // no legal move: whatever the kind of go, the search is over at once and is owed its one answer
                                s.send(&cmd);
                                n_search += 1;
                                accepted_go += 1;
                                let before = bestmoves;
                                match expect!(|l| l.starts_with("bestmove") || l.starts_with("error"), grace) {
                                    Some(ls) if bestmoves == before + 1 && !ls.iter().any(|l| l.starts_with("error")) => {
                                        if ls.last().map(|l| l.trim() != "bestmove none").unwrap_or(true) {
                                            fail!("move-announced-for-a-dead-root", "{:?} in {}: {:?}", cmd, "a position without legal moves", ls.last());
                                        }
                                    }
                                    other => fail!("no-bestmove", "{:?} in a position without legal moves was not answered with a bestmove line: {:?}", cmd, other.map(|l| l.last().cloned())),
                                }
                                ev.class("go_on_a_root_without_legal_moves");
                                game = false;
                                dead = false;
                                continue;
                            }
                            s.send(&cmd);
                            go_sent_at = Some(Instant::now());
                            searching = Some(sr);
                            n_search += 1;
                            accepted_go += 1;
                            // one time in three: isready at once, while the first iterations are being printed
                            // (a burst spread over the first millisecond, which is when depth 1-4 are printed)
                            if it.b % 3 == 0 {
                                during += 1;
                                const BURST: usize = 24;
                                for _ in 0..BURST {
                                    s.send("isready");
                                    let t = Instant::now();
                                    while t.elapsed() < Duration::from_micros(40) {
                                        std::hint::spin_loop();
                                    }
                                }
                                let before = bestmoves;
                                let mut seen = 0;
                                if expect!(
                                    |l| {
                                        if l == "readyok" {
                                            seen += 1;
                                        }
                                        seen == BURST
                                    },
                                    grace
                                )
                                .is_none()
                                {
                                    fail!("isready-unanswered", "{} isready sent right after {:?}, only {} readyok lines", BURST, cmd, seen);
                                }
                                ev.class("isready_bursts_at_search_start");
                                if bestmoves > before {
                                    if matches!(searching, Some(Searching::Infinite)) {
                                        fail!("bestmove-without-stop", "an infinite search announced a move although no stop was sent");
                                    }
                                    searching = None;
                                    game = false;
                                }
                            }
                        }
                    }
                    8 => {
                        s.send("ucinewgame");
                        game = false;
                        dead = false;
                    }
                    9 => {
                        s.send("stop");
                    }
                    _ => {
                        s.send("wait");
                    }
                },
                Some(sr) => {
                    let infinite = matches!(sr, Searching::Infinite);
                    // while searching: isready always; show/position/go only while an infinite search is
                    // known to be running (their refusal is then unambiguous); otherwise await the move
                    let choice = if !infinite && (EARLY_GO..EARLY_GO + 12).contains(&it.what) { 6 } else { it.what % 6 };
                    if choice == 0 {
                        during += 1;
                        s.send("isready");
                        let before = bestmoves;
                        if expect!(|l| l == "readyok", grace).is_none() {
                            fail!("isready-unanswered", "isready unanswered while searching ({:?})", sr);
                        }
                        if bestmoves > before {
                            if infinite {
                                fail!("bestmove-without-stop", "an infinite search announced a move although no stop was sent (the positions used have no forced mate, single reply or reachable depth ceiling)");
                            }
                            // the search ended by itself meanwhile
                            searching = None;
                            game = false;
                        }
                    } else if choice == 5 && it.b % 4 == 3 {
                        // ucinewgame while a search is running: the engine stops and joins it, so by the time
                        // the following isready is answered exactly one bestmove for that go has been printed
                        during += 1;
                        s.send("ucinewgame");
                        s.send("isready");
                        let budget = match sr {
                            Searching::Timed(b) | Searching::MoveTime(b) => b,
                            _ => 0,
                        };
                        if expect!(|l| l == "readyok", grace + budget + 4_000).is_none() {
                            fail!("isready-unanswered", "isready after ucinewgame during a {:?} search unanswered", sr);
                        }
                        if bestmoves != accepted_go {
                            fail!("bestmove-count", "ucinewgame during a {:?} search: {} accepted go commands, {} bestmove lines once readyok arrived", sr, accepted_go, bestmoves);
                        }
                        ev.class("ucinewgame_while_searching");
                        searching = None;
                        game = false;
                    } else if choice == 6 {
                        // impatient GUI: a new position and go without waiting for the answer to the running go. Whether
                        // they are refused or accepted depends on a race the harness does not control; whichever it is,
                        // the engine says so (an error line = refused), and the counts must add up afterwards.
                        during += 1;
                        let with_position = it.a % 2 == 0;
                        if with_position {
                            s.send(&format!("position {}", POSITIONS[(it.a / 2) as usize % POSITIONS.len()]));
                            s.send("isready");
                        }
                        s.send(&format!("go depth {}", 1 + it.b % 2));
                        s.send("isready");
                        let budget = match sr {
                            Searching::Timed(b) | Searching::MoveTime(b) => b,
                            _ => 4_000,
                        };
                        if with_position && expect!(|l| l == "readyok", grace + budget + 4_000).is_none() {
                            fail!("isready-unanswered", "isready after an early position (during a {:?} search) unanswered", sr);
                        }
                        let accepted = match expect!(|l| l == "readyok", grace + budget + 4_000) {
                            None => fail!("isready-unanswered", "isready after an early go (during a {:?} search) unanswered", sr),
                            Some(ls) => !ls.iter().any(|l| l.starts_with("error")),
                        };
                        n_search += 1;
                        if accepted {
                            accepted_go += 1;
                            ev.class("early_go_accepted");
                        } else {
                            ev.class("early_go_refused");
                        }
                        // settle: stop joins the newest search thread; by the time readyok arrives every accepted go
                        // must have been answered (an older thread can only be one that was let finish before)
                        s.send("stop");
                        s.send("isready");
                        if expect!(|l| l == "readyok", grace + 4_000).is_none() {
                            fail!("isready-unanswered", "isready after stop (early go during a {:?} search) unanswered", sr);
                        }
                        std::thread::sleep(Duration::from_millis(30 + hook_total));
                        let stray = s.drain(20);
                        bestmoves += stray.iter().filter(|l| l.starts_with("bestmove")).count() as u32;
                        if let Some(p) = s.panicked() {
                            fail!("panic", "after an early go during a {:?} search; stderr: {}", sr, p);
                        }
                        if bestmoves != accepted_go {
                            fail!("bestmove-count", "early go during a {:?} search ({}): {} accepted go commands, {} bestmove lines after stop + readyok", sr, if accepted { "accepted" } else { "refused" }, accepted_go, bestmoves);
                        }
                        // make the state known again
                        s.send("ucinewgame");
                        s.send("isready");
                        if expect!(|l| l == "readyok", grace).is_none() {
                            fail!("isready-unanswered", "isready after ucinewgame unanswered");
                        }
                        searching = None;
                        game = false;
                    } else if infinite && (choice == 1 || choice == 2) && bestmoves < accepted_go {
                        during += 1;
                        let cmd = ["show", "position startpos", "go depth 1"][it.a as usize % 3];
                        s.send(cmd);
                        let before = bestmoves;
                        let r = expect!(|l| l.starts_with("error: search is still running") || l.starts_with("bestmove"), grace);
                        match r {
                            None => fail!("command-during-search-unanswered", "{} during an infinite search: neither refused nor did the search end", cmd),
                            Some(_) => {
                                if bestmoves > before {
                                    fail!("bestmove-without-stop", "an infinite search announced a move although no stop was sent (while {:?} was being refused)", cmd);
                                }
                                #[allow(unreachable_code)]
                                if bestmoves > before {
                                    // (kept for positions where an infinite search may end by itself: resynchronise)
                                    searching = None;
                                    game = false;
                                    s.send("isready");
                                    if expect!(|l| l == "readyok", grace).is_none() {
                                        fail!("isready-unanswered", "isready unanswered after a search ended by itself");
                                    }
                                    // whatever `cmd` did, re-establish a known state
                                    s.send("stop");
                                    s.send("wait");
                                    s.send("ucinewgame");
                                    s.send("isready");
                                    if expect!(|l| l == "readyok", grace + 20_000).is_none() {
                                        fail!("isready-unanswered", "isready unanswered after resynchronisation");
                                    }
                                    // a `go depth 1` that slipped in produced one more bestmove
                                    accepted_go = bestmoves;
                                }
                            }
                        }
                    } else {
                        let how = choice % 3; // 0 await / 1 stop / 2 wait
                        let cmd = match (how, infinite) {
                            (_, true) => "stop",
                            (1, _) => "stop",
                            (2, _) => "wait",
                            _ => "",
                        };
                        if !cmd.is_empty() {
                            s.send(cmd);
                        }
                        let budget = match sr {
                            Searching::Timed(b) | Searching::MoveTime(b) => b,
                            Searching::Depth => 4_000,
                            Searching::Infinite => 0,
                        };
                        let tmo = grace + budget;
                        let before = bestmoves;
                        let t0 = Instant::now();
                        let r = expect!(|l| l.starts_with("bestmove"), tmo);
                        if let (Searching::MoveTime(mt), "", Some(started)) = (&sr, cmd, go_sent_at) {
                            // nobody stopped it and the positions used here have no forced mate or single reply:
                            // the answer may not come (much) before the move time is over
                            let waited = started.elapsed().as_millis() as u64;
                            if r.is_some() && *mt >= 60 && waited + 40 < *mt {
                                fail!("bestmove-before-the-time-budget", "`go movetime {}` answered after {} ms without a stop", mt, waited);
                            }
                        }
                        match r {
                            None => fail!("no-bestmove", "no bestmove {} ms after {:?} of a {:?} search", t0.elapsed().as_millis(), cmd, sr),
                            Some(ls) => {
                                if ls.last().map(|l| l.trim() == "bestmove none").unwrap_or(false) {
                                    fail!("bestmove-none", "bestmove none in a position with legal moves");
                                }
                                if bestmoves != before + 1 {
                                    fail!("several-bestmoves", "more than one bestmove for one go");
                                }
                            }
                        }
                        searching = None;
                        game = false;
                        // a position and go sent right after the bestmove line was read must be honoured
                        if it.b % 2 == 0 {
                            s.send(&format!("position {}", POSITIONS[it.a as usize % POSITIONS.len()]));
                            s.send("go depth 1");
                            n_search += 1;
                            let before = bestmoves;
                            let r = expect!(|l| l.starts_with("bestmove") || l.starts_with("error"), grace + 4_000);
                            match r {
                                Some(ls) if bestmoves == before + 1 && !ls.iter().any(|l| l.starts_with("error")) => {
                                    accepted_go += 1;
                                    ev.class("position_go_right_after_bestmove");
                                }
                                other => fail!("position-and-go-after-bestmove-not-honoured", "position + go sent right after a bestmove line: {:?}", other.map(|l| l.last().cloned())),
                            }
                        }
                    }
                }
            }
        }
        // one ending in four: quit while the search is still running - the process must simply exit
        let quit_while_searching = searching.is_some() && case.intents.last().map(|i| i.b % 4 == 1).unwrap_or(false);
        if quit_while_searching {
            match s.quit_within(grace) {
                Some(0) => {}
                other => fail!("engine-does-not-exit-cleanly", "quit while a {:?} search was running: exit status {:?}", searching, other),
            }
            if let Some(p) = s.panicked() {
                fail!("panic", "stderr: {}", p);
            }
            ev.class("sessions");
            ev.class("sessions_ending_with_quit_while_searching");
            return Ok(());
        }
        // end of script: finish a running search, then no stray bestmove may follow
        if let Some(sr) = searching.clone() {
            s.send("stop");
            let budget = if let Searching::Timed(b) | Searching::MoveTime(b) = sr { b } else { 0 };
            let before = bestmoves;
            if expect!(|l| l.starts_with("bestmove"), grace + budget).is_none() || bestmoves != before + 1 {
                fail!("no-bestmove", "no bestmove after the final stop of a {:?} search", sr);
            }
        }
        s.send("isready");
        if expect!(|l| l == "readyok", grace).is_none() {
            fail!("isready-unanswered", "final isready unanswered");
        }
        std::thread::sleep(Duration::from_millis(30 + hook_total));
        let stray = s.drain(20);
        bestmoves += stray.iter().filter(|l| l.starts_with("bestmove")).count() as u32;
        if bestmoves != accepted_go {
            fail!("bestmove-count", "{} accepted go commands, {} bestmove lines", accepted_go, bestmoves);
        }
        match s.quit_within(grace) {
            Some(0) => {}
            other => fail!("engine-does-not-exit-cleanly", "exit status after quit: {:?}", other),
        }
        if let Some(p) = s.panicked() {
            fail!("panic", "stderr: {}", p);
        }
        if !s.spliced_lines.is_empty() {
            fail!("output-lines-interleaved", "protocol output of two threads was spliced into one line");
        }
        ev.class("sessions");
        ev.class_n("searches", n_search as u64);
        ev.class_n("commands_sent_while_searching", during as u64);
        if !delays.is_empty() {
            ev.class("sessions_with_stretched_schedule_points");
        }
        if n_search >= 2 && (during > 0 || !delays.is_empty()) {
            let text = s.log.iter().filter(|l| l.starts_with("> ")).map(|l| l[2..].to_string()).collect::<Vec<_>>();
            ev.nontrivial(fp_bytes(format!("{:?}{:?}", delays, text).as_bytes()), || json!({"schedule_delays": delays, "commands": text}));
        }
        Ok(())
    }
}

impl Prop for C14 {
    type Case = SessionCase;

    fn id(&self) -> &'static str {
        "C14"
    }

    fn rule(&self) -> String {
        "Cases (model-based): 3-16 GUI intents over {empty and unknown lines (`debug on`, `setoption …`, `ponderhit`, …: nothing expected back, the session just has to go on), isready, uci, show, position, go depth|movetime|depth+movetime (budgets 0.3 s to 1 h, ended by the depth limit long before)|clock|infinite, ucinewgame, stop, wait} interpreted by a GUI state machine (no game / game set / searching) so that every expectation is unambiguous, each preceded by a generated delay of 0/1/5/20/100 ms, together with a generated delay 0/20/100 ms for each of nine schedule points in command_go and the search-thread epilogue (before_flag_raise, after_flag_raise, timer_wakeup, before_search_spawn, search_thread_start, after_search_return, after_flag_clear, after_game_drop, after_bestmove_print). Run against the real binary built with the hooks. History invariants: exactly one bestmove per accepted go (never `none` here), each within its deadline (depth: grace; timed: budget + hook delays + grace; infinite: only after stop - the curated positions have no forced mate or single reply, so an infinite search that announces a move by itself, or a `go movetime T` answered well before T, is a violation: that is how a stale timer of an earlier `go depth d movetime T` shows), isready answered while idle and while searching, show/position/go refused while an infinite search runs, ucinewgame while searching stops the search (its bestmove is there before the next readyok), quit while searching exits with status 0, a position + go sent right after a bestmove line was read are honoured, an impatient GUI's early `position` + `go` sent 0-20 ms after a go with a small budget of its own (depth 1/3, movetime 0-20, exhausted clocks) - without waiting for the answer - is either refused with an error line or accepted, and after `stop` + `readyok` the number of bestmove lines equals the number of accepted go commands with no panic on stderr (one intent in five is such a pair), a go (of any kind) on a root without legal moves - one position command in four sets a stalemated or checkmated root - is answered at once with exactly one `bestmove none` line, no stray bestmove at the end, no panic on stderr, exit status 0 after quit. Every tier also sends `go depth 2` after a game record of every length from 0 to 398 plies (one session each) and requires the answer within 10 s. evaluations = commands issued. Non-trivial session: at least two searches and (a stretched schedule point or a command sent while searching); distinct by command script and delays.".into()
    }

    fn assumptions(&self) -> Vec<String> {
        vec![
            "only interleavings reachable by stretching the named schedule points and by command timing are explored, not all schedules".into(),
            "commands whose outcome depends on a race the harness does not control are not generated, except that an infinite search may end by itself (the model resynchronises)".into(),
        ]
    }

    fn nshards(&self, _tier: Tier) -> u32 {
        8
    }

    fn cases(&self, tier: Tier) -> u32 {
        tier.pick(480, 8_000)
    }

    fn shard_timeout_s(&self, tier: Tier) -> u64 {
        tier.pick(1200, 9000)
    }

    fn confirm_in_fresh_process(&self) -> bool {
        true
    }

    fn always_inflight(&self) -> bool {
        true
    }

    fn max_shrink_iters(&self) -> u32 {
        60
    }

    fn strategy(&self, _ctx: &Ctx) -> BoxedStrategy<SessionCase> {
        let intent = (prop_oneof![16 => 0u8..EARLY_GO, 4 => EARLY_GO..EARLY_GO + 12, 1 => Just(NOISE[0]), 1 => Just(NOISE[1])], any::<u16>(), any::<u16>(), 0u8..5).prop_map(|(what, a, b, delay)| Intent { what, a, b, delay });
        let sched = vec((0u8..9, prop_oneof![5 => Just(0u8), 2 => Just(1u8), 2 => Just(2u8)]), 0..6);
        (sched, vec(intent, 3..17)).prop_map(|(sched, intents)| SessionCase { sched, intents, repeat: 0, record_len: None }).boxed()
    }

    fn enumerate(&self, ctx: &Ctx, ev: &mut Ev, report: &mut dyn FnMut(SessionCase, Fail)) {
        // a go after a game record of every length the interface accepts
        for len in 0..=398u16 {
            if !ctx.owns(len as u64) {
                continue;
            }
            let case = SessionCase { sched: vec![], intents: vec![], repeat: 0, record_len: Some(len) };
            ctx.note_inflight("C14", &case);
            if let Err(f) = self.check(ctx, &case, ev) {
                report(case, f);
                return;
            }
        }
    }

    fn check(&self, _ctx: &Ctx, case: &SessionCase, ev: &mut Ev) -> Result<(), Fail> {
        if let Some(len) = case.record_len {
            let moves: Vec<&str> = (0..len as usize).map(|k| ["g1f3", "g8f6", "f3g1", "f6g8"][k % 4]).collect();
            let mut s = Session::start(&[]).map_err(|e| Fail::new("harness", e))?;
            s.send(&format!("position startpos moves {}", moves.join(" ")));
            s.send("go depth 2");
            ev.eval();
            ev.class("go_after_a_record_of_every_length_0_to_398");
            let got = s.read_until(|l| l.starts_with("bestmove") || l.starts_with("error"), 10_000);
            let ok = matches!(&got, Some(ls) if ls.last().map(|l| l.starts_with("bestmove") && l.trim() != "bestmove none").unwrap_or(false));
            if !ok {
                let tail = s.transcript_tail(4);
                let pan = s.panicked();
                s.kill();
                return Err(Fail::new("no-bestmove", format!("`go depth 2` after a record of {} plies (knight shuffle from the start position): no bestmove within 10 s ({:?}; stderr {:?}; {})", len, got.map(|l| l.last().cloned()), pan, tail)));
            }
            match s.quit_within(3_000) {
                Some(0) => {}
                other => return Err(Fail::new("engine-does-not-exit-cleanly", format!("after `go depth 2` at the end of a {}-ply record: exit status {:?}", len, other))),
            }
            return Ok(());
        }
        for _ in 0..case.repeat.max(1) {
            self.run(case, ev)?;
        }
        Ok(())
    }
}
