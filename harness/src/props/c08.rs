//! C08: depth-limited and unlimited searches end cleanly whatever the table holds.

use crate::eng::{self, Game};
use crate::ev::*;
use crate::gen::*;
use crate::refchess::*;
use crate::runner::{Ctx, Prop};
use crate::srch;
use crate::uci::{self, Session};
use proptest::collection::vec;
use proptest::prelude::*;
use serde::{Deserialize, Serialize};
use serde_json::json;
use std::collections::HashMap;

#[derive(Serialize, Deserialize, Clone, Debug)]
pub struct DStep {
    /// 0 same position again; 1 sibling (take back one ply, play another move); 2 transposition (a piece
    /// of each side goes out and back: same position, four plies later); 3 child (one or two more plies);
    /// 4 parent (take back one or two plies)
    pub nav: u8,
    pub pick: Pick,
    pub depth: u8,
}

#[derive(Serialize, Deserialize, Clone, Debug)]
pub struct Tiny {
    /// blocked pawn pairs: (file, rank of the white pawn 1..=5), the black pawn stands right in front
    pub pairs: Vec<(u8, u8)>,
    pub wk: u8,
    pub bk: u8,
    /// optional minor piece: (index into "BNbn", square)
    pub minor: Option<(u8, u8)>,
    pub white: bool,
}

#[derive(Serialize, Deserialize, Clone, Debug)]
pub enum TermCase {
    /// depth-limited searches over one table, the limit often below a depth searched before
    History { start: Start, lead_in: Vec<Pick>, steps: Vec<DStep>, via_uci: bool },
    /// unlimited search of a tiny position for `run_ms`, then fixed deep limits
    TinyRun { tiny: Tiny, run_ms: u16, via_uci: bool },
    /// the same for a position given as text (curated cages, regression files)
    FenRun { fen: String, run_ms: u16, via_uci: bool },
    /// a literal UCI script of `position` / `go depth` / `wait` lines (regression files)
    Script { lines: Vec<String> },
    /// a tiny position searched to the depth ceiling (`go depth 255`), then the SAME position at the end of a
    /// game record of `plies` shuffle plies (where the ceiling is lower than the cached depth): `go depth 250`
    /// and `go infinite` must still end by themselves with a legal move and without `info depth` above the limit
    DeepThenLong { fen: String, plies: u16 },
    /// bare kings at the end of a record of `len` shuffle plies, searched in-process with `go depth limit`
    RecordLength { len: u16, limit: u8 },
}

pub struct C08;

/// Locked fortresses in which BOTH sides have exactly one legal move, for ever (each king shuttles between two
/// squares): every node of every search of them is an only-move node, however deep. Validated by `selftest`.
pub const LOCKED: &[&str] = &["4b2k/3pPp1p/3P1P1P/8/8/p1p1p3/P1PpP3/K2B4 w - - 0 1", "k2b4/p1pPp3/P1P1P3/8/8/3p1p1p/3PpP1P/4B2K b - - 0 1"];

impl Tiny {
    pub fn build(&self) -> Option<Pos> {
        let mut b = [b'.'; 64];
        for &(f, r) in &self.pairs {
            let (f, r) = ((f % 8) as usize, 1 + (r % 5) as usize);
            if b[r * 8 + f] == b'.' && b[(r + 1) * 8 + f] == b'.' {
                b[r * 8 + f] = b'P';
                b[(r + 1) * 8 + f] = b'p';
            }
        }
        for (k, s) in [(b'K', self.wk), (b'k', self.bk)] {
            let mut s = (s % 64) as usize;
            let mut tries = 0;
            while b[s] != b'.' {
                s = (s + 1) % 64;
                tries += 1;
                if tries > 64 {
                    return None;
                }
            }
            b[s] = k;
        }
        if let Some((pi, s)) = self.minor {
            let s = (s % 64) as usize;
            if b[s] == b'.' {
                b[s] = b"BNbn"[pi as usize % 4];
            }
        }
        let p = Pos { b, white: self.white, cr: [false; 4], ep: None };
        if p.sane() && !p.legal().is_empty() {
            return Some(p);
        }
        let q = Pos { white: !self.white, ..p };
        if q.sane() && !q.legal().is_empty() {
            return Some(q);
        }
        None
    }
}

fn tiny_strategy() -> impl Strategy<Value = Tiny> {
    (vec((0u8..8, 0u8..5), 0..5), 0u8..64, 0u8..64, proptest::option::weighted(0.35, (0u8..4, 0u8..64)), any::<bool>()).prop_map(|(pairs, wk, bk, minor, white)| Tiny { pairs, wk, bk, minor, white })
}

/// common judgement of one depth-limited search transcript
fn judge_limited(what: &str, limit: u8, depths: &[u32], needed_stop: bool, panicked: &Option<String>) -> Result<(), Fail> {
    if let Some(p) = panicked {
        return Err(Fail::new("search-panics", format!("{} : {}", what, p)));
    }
    if let Some(&d) = depths.iter().find(|&&d| d > limit as u32) {
        return Err(Fail::new("searched-deeper-than-the-limit", format!("{} : `info depth {}` printed for a search limited to depth {} (all depths: {:?})", what, d, limit, depths)));
    }
    if needed_stop {
        // deeper-than-limit is the decisive symptom; a bare timeout is only inconclusive
        return Err(Fail::new("inconclusive-timeout", format!("{} : search limited to depth {} had not ended by itself when the watchdog stopped it (deepest printed: {:?})", what, limit, depths.last())));
    }
    Ok(())
}

fn judge_unlimited_depths(what: &str, depths: &[u32]) -> Result<(), Fail> {
    if depths.contains(&0) {
        return Err(Fail::new("unlimited-search-depth-not-increasing", format!("{} : `info depth 0` printed (depth counter wrapped or restarted); depths {:?}", what, &depths[..depths.len().min(12)])));
    }
    for w in depths.windows(2) {
        if w[1] <= w[0] {
            return Err(Fail::new("unlimited-search-depth-not-increasing", format!("{} : `info depth` went from {} to {} (depth counter wrapped or restarted)", what, w[0], w[1])));
        }
    }
    if let Some(&d) = depths.iter().find(|&&d| d > 255) {
        return Err(Fail::new("unlimited-search-depth-not-increasing", format!("{} : depth {}", what, d)));
    }
    Ok(())
}

impl C08 {
    fn history(&self, start: &Start, lead_in: &[Pick], steps: &[DStep], via_uci: bool, ev: &mut Ev) -> Result<(), Fail> {
        let Some(sp) = start.pos() else {
            ev.skip("construction did not yield a sane position");
            return Ok(());
        };
        let mut moves: Vec<RMove> = Vec::new();
        let pos_of = |moves: &[RMove]| {
            let mut p = sp.clone();
            for &m in moves {
                p = p.make(m);
            }
            p
        };
        let extend = |moves: &mut Vec<RMove>, pk: Pick| {
            let p = pos_of(moves);
            let legal = p.legal();
            if let Some(m) = resolve_pick(&p, &legal, pk, moves) {
                if moves.len() < 380 {
                    moves.push(m);
                }
            }
        };
        for &pk in lead_in {
            extend(&mut moves, pk);
        }
        let mut table = srch::new_table();
        let mut sess = if via_uci { Some(Session::start(&[]).map_err(|e| Fail::new("harness", e))?) } else { None };
        ev.class(if via_uci { "uci_histories" } else { "in_process_histories" });
        // deepest limit already searched per position in this table
        let mut searched: HashMap<u64, u8> = HashMap::new();
        for (i, st) in steps.iter().enumerate() {
            match st.nav % 5 {
                0 => {}
                1 => {
                    if let Some(last) = moves.pop() {
                        let p = pos_of(&moves);
                        let legal: Vec<RMove> = p.legal().into_iter().filter(|m| *m != last).collect();
                        if let Some(m) = resolve_pick(&p, &legal, st.pick, &moves) {
                            moves.push(m);
                        } else {
                            moves.push(last);
                        }
                    }
                }
                2 => {
                    // out and back for both sides: same position, different game record
                    let p = pos_of(&moves);
                    let legal = p.legal();
                    let quiet: Vec<RMove> = legal.iter().copied().filter(|&m| !p.is_capture(m) && m.kind == K_NORMAL && m.promo == 0 && !b"pPkKrR".contains(&p.b[m.from as usize])).collect();
                    if !quiet.is_empty() && moves.len() < 370 {
                        let a = quiet[(st.pick.idx as usize * quiet.len()) >> 16];
                        let p1 = p.make(a);
                        let q1: Vec<RMove> = p1.legal().into_iter().filter(|&m| !p1.is_capture(m) && m.kind == K_NORMAL && m.promo == 0 && !b"pPkKrR".contains(&p1.b[m.from as usize])).collect();
                        if !q1.is_empty() {
                            let b = q1[(st.pick.idx as usize * q1.len()) >> 16];
                            let p2 = p1.make(b);
                            let ba = RMove { from: a.to, to: a.from, promo: 0, kind: K_NORMAL };
                            let bb = RMove { from: b.to, to: b.from, promo: 0, kind: K_NORMAL };
                            if p2.legal().contains(&ba) && p2.make(ba).legal().contains(&bb) && p2.make(ba).make(bb) == p {
                                moves.extend([a, b, ba, bb]);
                                ev.class("transposition_steps");
                            }
                        }
                    }
                }
                3 => {
                    extend(&mut moves, st.pick);
                    if st.pick.idx & 1 == 1 {
                        extend(&mut moves, Pick { kind: PK_ANY, idx: st.pick.idx.rotate_left(5) });
                    }
                }
                _ => {
                    moves.pop();
                    if st.pick.idx & 1 == 1 {
                        moves.pop();
                    }
                }
            }
            let p = pos_of(&moves);
            if p.legal().is_empty() {
                moves.pop();
                continue;
            }
            if !search_friendly(&p) {
                ev.skip(SKIP_HEAVY);
                return Ok(());
            }
            let limit = st.depth.clamp(1, 5);
            let script = format!("position fen {} moves {} ; go depth {}", sp.fen6(), moves_text(&moves), limit);
            let key = fp_pos(&p);
            let before = searched.get(&key).copied().unwrap_or(0);
            let deeper_cached = before > limit;
            ev.eval();
            let (depths, needed_stop, panicked) = match sess.as_mut() {
                None => {
                    let mut g = Game::new(&sp.fen6()).map_err(|e| Fail::new("sane-position-not-importable", e.to_string()))?;
                    for m in &moves {
                        let Some(em) = eng::find_legal(&mut g, &m.uci()) else {
                            return Err(Fail::new("legal-move-not-offered", format!("{} in {}", m.uci(), g.fen())));
                        };
                        g.push_history(em);
                    }
                    let out = srch::run_search(&g, &mut table, Some(limit), 30_000);
                    (out.depths(), out.watchdog_fired, out.panicked)
                }
                Some(s) => {
                    s.send(&format!("position fen {} moves {}", sp.fen6(), moves_text(&moves)));
                    s.send(&format!("go depth {}", limit));
                    let mut needed_stop = false;
                    let mut lines = Vec::new();
                    // read until bestmove; a depth above the limit is decisive and ends the wait at once
                    let mut too_deep = false;
                    let got = s.read_until(
                        |l| {
                            if let Some(d) = l.strip_prefix("info depth ").and_then(|x| x.trim().parse::<u32>().ok()) {
                                if d > limit as u32 {
                                    too_deep = true;
                                    return true;
                                }
                            }
                            l.starts_with("bestmove")
                        },
                        30_000,
                    );
                    match got {
                        Some(l) => lines.extend(l),
                        None => needed_stop = true,
                    }
                    if too_deep || needed_stop {
                        s.send("stop");
                        if let Some(l) = s.read_until(|l| l.starts_with("bestmove"), 10_000) {
                            lines.extend(l);
                        }
                        needed_stop = !too_deep;
                    }
                    s.send("wait");
                    s.send("isready");
                    let _ = s.read_until(|l| uci::readyok(l), 10_000);
                    (uci::info_depths(&lines), needed_stop, s.panicked())
                }
            };
            match judge_limited(&format!("search {} ({})", i, script), limit, &depths, needed_stop, &panicked) {
                Ok(()) => {}
                Err(f) if f.signature == "inconclusive-timeout" => {
                    ev.inconclusive("depth-limited search stopped by the 30 s watchdog without a depth above the limit");
                }
                Err(f) => return Err(f),
            }
            searched.insert(key, before.max(limit));
            if deeper_cached {
                ev.class("limit_below_a_depth_searched_before");
                ev.nontrivial(mix(key ^ fp_bytes(script.as_bytes())), || json!({"script": script, "deepest_earlier_search_of_this_position": before, "depths_printed": depths}));
            }
        }
        if let Some(s) = sess {
            s.quit();
        }
        Ok(())
    }

    fn unlimited(&self, p: &Pos, run_ms: u64, via_uci: bool, ev: &mut Ev) -> Result<(), Fail> {
        let fen = p.fen6();
        let legal: Vec<String> = p.legal().iter().map(|m| m.uci()).collect();
        let case = |via: bool| serde_json::to_value(TermCase::FenRun { fen: fen.clone(), run_ms: run_ms as u16, via_uci: via }).unwrap();
        let deep_limits: &[u8] = &[33, 34, 64, 128, 255];
        if legal.is_empty() {
            ev.skip("root without a legal move");
            return Ok(());
        }
        if !via_uci {
            let g = Game::new(&fen).map_err(|e| Fail::new("sane-position-not-importable", e.to_string()))?;
            let mut table = srch::new_table();
            ev.eval();
            let out = srch::run_search(&g, &mut table, None, run_ms);
            let what = format!("unlimited search of {} for {} ms", fen, run_ms);
            if let Some(pn) = &out.panicked {
                return Err(Fail::new("search-panics", format!("{} : {} (deepest iteration {:?})", what, pn, out.depths().last())).with_case(case(false)));
            }
            let depths = out.depths();
            judge_unlimited_depths(&what, &depths).map_err(|f| f.with_case(case(false)))?;
            if let Some(lat) = out.stop_latency_ms {
                if lat > 5000 {
                    return Err(Fail::new("stop-ignored", format!("{} : returned {} ms after the stop flag was cleared", what, lat)).with_case(case(false)));
                }
            }
            match &out.best {
                Some(m) if legal.contains(m) => {}
                other => return Err(Fail::new("unlimited-search-answer-not-legal", format!("{} : answered {:?}", what, other)).with_case(case(false))),
            }
            let maxd = depths.iter().copied().max().unwrap_or(0);
            ev.class(match maxd {
                0..=32 => "unlimited_reached_depth_le_32",
                33..=254 => "unlimited_reached_depth_33_254",
                _ => "unlimited_reached_depth_255",
            });
            if maxd > 32 {
                ev.nontrivial(fp_pos(p), || json!({"position": fen, "run_ms": run_ms, "deepest_iteration": maxd, "ended_by_itself": !out.watchdog_fired}));
            }
            // the same code path without dependence on machine speed: fixed deep limits, fresh table
            // (only where the timed run showed that such depths are within reach)
            if maxd < 33 {
                ev.class("deep_limits_not_attempted_depth_33_out_of_reach");
                return Ok(());
            }
            for &d in deep_limits {
                let mut t = srch::new_table();
                ev.eval();
                let o = srch::run_search(&g, &mut t, Some(d), 4_000);
                let what = format!("`go depth {}` on {}", d, fen);
                match judge_limited(&what, d, &o.depths(), o.watchdog_fired, &o.panicked) {
                    Ok(()) => {
                        ev.class("deep_limit_runs_completed");
                        if o.depths().iter().copied().max().unwrap_or(0) > 32 {
                            ev.nontrivial(mix(fp_pos(p) ^ d as u64), || json!({"position": fen, "go_depth": d, "deepest_iteration": o.depths().last()}));
                        }
                    }
                    Err(f) if f.signature == "inconclusive-timeout" => ev.class("deep_limit_runs_cut_by_watchdog"),
                    Err(f) => return Err(f.with_case(case(false))),
                }
                if let Some(lat) = o.stop_latency_ms {
                    if lat > 5000 {
                        return Err(Fail::new("stop-ignored", format!("{} : returned {} ms after the stop flag was cleared", what, lat)).with_case(case(false)));
                    }
                }
                judge_unlimited_depths(&what, &o.depths()).map_err(|f| f.with_case(case(false)))?;
            }
            return Ok(());
        }
        // through the real binary
        let mut s = Session::start(&[]).map_err(|e| Fail::new("harness", e))?;
        s.send(&format!("position fen {}", fen));
        s.send("go infinite");
        ev.eval();
        ev.class("uci_unlimited_runs");
        let mut lines = s.drain(run_ms);
        let what = format!("`go infinite` on {} for {} ms", fen, run_ms);
        let fail = |sig: &str, d: String| Fail::new(sig, d).with_case(case(true));
        if s.flooded.load(std::sync::atomic::Ordering::Relaxed) {
            s.kill();
            return Err(fail("unlimited-search-floods-output", format!("{} : more than {} lines printed", what, uci::LINE_CAP)));
        }
        let ended_early = lines.iter().any(|l| l.starts_with("bestmove"));
        s.send("isready");
        match s.read_until(|l| uci::readyok(l), 5_000) {
            Some(l) => lines.extend(l),
            None => {
                let pan = s.panicked();
                s.kill();
                return Err(fail("engine-unresponsive-during-unlimited-search", format!("{} : no readyok (stderr: {:?})", what, pan)));
            }
        }
        if !ended_early {
            s.send("stop");
            match s.read_until(|l| l.starts_with("bestmove"), 5_000) {
                Some(l) => lines.extend(l),
                None => {
                    let pan = s.panicked();
                    s.kill();
                    return Err(fail(if pan.is_some() { "search-panics" } else { "stop-ignored" }, format!("{} : no bestmove within 5 s of `stop` (stderr: {:?})", what, pan)));
                }
            }
        }
        if let Some(pn) = s.panicked() {
            s.kill();
            return Err(fail("search-panics", format!("{} : {}", what, pn)));
        }
        let depths = uci::info_depths(&lines);
        judge_unlimited_depths(&what, &depths).map_err(|f| f.with_case(case(true)))?;
        let bm = uci::bestmove_of(&lines).unwrap_or_default();
        if !legal.contains(&bm) {
            s.kill();
            return Err(fail("unlimited-search-answer-not-legal", format!("{} : bestmove {}", what, bm)));
        }
        // fixed deep limits on the same process (table kept: that is the realistic history)
        let maxd = depths.iter().copied().max().unwrap_or(0);
        for &d in deep_limits {
            if maxd < 33 {
                ev.class("deep_limits_not_attempted_depth_33_out_of_reach");
                break;
            }
            s.send(&format!("position fen {}", fen));
            s.send(&format!("go depth {}", d));
            let got = s.read_until(|l| l.starts_with("bestmove"), 4_000);
            let (ls, cut) = match got {
                Some(l) => (l, false),
                None => {
                    s.send("stop");
                    match s.read_until(|l| l.starts_with("bestmove"), 5_000) {
                        Some(l) => (l, true),
                        None => {
                            let pan = s.panicked();
                            s.kill();
                            return Err(fail(if pan.is_some() { "search-panics" } else { "stop-ignored" }, format!("`go depth {}` on {} : no bestmove within 5 s of `stop` (stderr: {:?})", d, fen, pan)));
                        }
                    }
                }
            };
            ev.eval();
            let ds = uci::info_depths(&ls);
            match judge_limited(&format!("`go depth {}` on {}", d, fen), d, &ds, cut, &s.panicked()) {
                Ok(()) => ev.class("deep_limit_runs_completed"),
                Err(f) if f.signature == "inconclusive-timeout" => ev.class("deep_limit_runs_cut_by_watchdog"),
                Err(f) => {
                    s.kill();
                    return Err(f.with_case(case(true)));
                }
            }
            s.send("wait");
        }
        match s.quit_within(3_000) {
            Some(0) => {}
            other => {
                s.kill();
                return Err(fail("engine-does-not-exit-cleanly", format!("{} : exit status after quit {:?}", what, other)));
            }
        }
        let maxd = depths.iter().copied().max().unwrap_or(0);
        if maxd > 32 {
            ev.nontrivial(mix(fp_pos(p) ^ 0xB1), || json!({"position": fen, "via": "binary", "run_ms": run_ms, "deepest_iteration": maxd}));
        }
        Ok(())
    }

    fn script(&self, lines: &[String], ev: &mut Ev) -> Result<(), Fail> {
        let mut s = Session::start(&[]).map_err(|e| Fail::new("harness", e))?;
        for l in lines {
            ev.eval();
            if let Some(d) = l.strip_prefix("go depth ") {
                let limit: u8 = d.trim().parse().map_err(|_| Fail::new("harness", format!("bad script line {}", l)))?;
                s.send(l);
                let mut too_deep = None;
                let got = s.read_until(
                    |x| {
                        if let Some(dd) = x.strip_prefix("info depth ").and_then(|v| v.trim().parse::<u32>().ok()) {
                            if dd > limit as u32 {
                                too_deep = Some(dd);
                                return true;
                            }
                        }
                        x.starts_with("bestmove")
                    },
                    30_000,
                );
                if let Some(dd) = too_deep {
                    s.kill();
                    return Err(Fail::new("searched-deeper-than-the-limit", format!("script {:?}: `info depth {}` printed for `{}`", lines, dd, l)));
                }
                if got.is_none() {
                    let pan = s.panicked();
                    let died = !s.alive();
                    let err = s.stderr_text();
                    s.kill();
                    if let Some(p) = pan {
                        return Err(Fail::new("search-panics", format!("script {:?}: {}", lines, p)));
                    }
                    if died {
                        return Err(Fail::new("search-panics", format!("script {:?}: the engine process died during `{}` without answering ({})", lines, l, err.chars().take(300).collect::<String>())));
                    }
                    ev.inconclusive("scripted depth-limited search did not end within 30 s");
                    return Ok(());
                }
            } else {
                s.send(l);
            }
        }
        s.quit();
        Ok(())
    }
}

impl Prop for C08 {
    type Case = TermCase;

    fn id(&self) -> &'static str {
        "C08"
    }

    fn rule(&self) -> String {
        "Cases: (a) stateful histories of depth-limited searches (limit 1-5) sharing one table while the game navigates: same position again, sibling, transposition by out-and-back moves of both sides, child, parent - so a deeper exact root entry often pre-exists; in-process and (1 in 5) through the real binary. Oracle: no `info depth` above the limit (decisive, no timeout involved), no panic; a 30 s watchdog without that symptom is only counted as inconclusive. (b) generated tiny positions (kings + 0-4 mutually blocked pawn pairs + 0-1 minor piece) and the curated cages searched WITHOUT limit for 0.3-1.5 s in-process (a watchdog thread plays `stop`) or through the binary (`go infinite`, `isready`, `stop`, `quit`): no panic, `info depth` strictly increasing and <= 255, the search returns within 2 s of the stop with a legal move, the binary answers readyok while searching, does not flood, exits 0; then the same positions with fixed limits 33, 34, 64, 128, 255 (same code path, independent of machine speed); five tiny positions (bare kings, K+B, K+P) are searched to the depth ceiling and then again at the end of a 120-396-ply game record, where the ceiling lies below the cached depth (`go depth 250`, `go infinite`, `go depth 3` must end with a legal move, on the release build and on the build with debug assertions, where an overrun of the state stack is a panic; a depth-limited one that has not answered after 8 s while the process consumes no CPU time - measured from /proc over 1.5 s - is not searching any more but waiting to be stopped, which is the violation `never running on until stopped` even when the limit lies above the engine's depth ceiling); a bare-kings game record of every length from 0 to 398 plies is followed by `go depth 2` and `go depth 9` in-process (the limit must hold and the search must end by itself for every length); two locked fortresses in which both sides have exactly one legal move for ever are searched with `go depth 1`, `3`, `2` (after one move) and `200` through the binary and must answer (no crash, no depth above the limit); `info depth 0` is a wrapped counter. A search that does not return after the stop hangs its shard: the parent reports that case as the violation. evaluations = searches judged. Non-trivial: (a) the limit is below a depth this position was searched to before in the same table; (b) an iteration deeper than 32 was reached; distinct by script / position.".into()
    }

    fn assumptions(&self) -> Vec<String> {
        vec![
            "run lengths of unlimited searches are sampled (seconds, not hours); the u8 depth ceiling is reached within that time on the bare-king and cage class, which is where the counter can wrap".into(),
            "a watchdog firing without a decisive symptom is inconclusive, never a violation".into(),
        ]
    }

    fn nshards(&self, _tier: Tier) -> u32 {
        12
    }

    fn cases(&self, tier: Tier) -> u32 {
        tier.pick(720, 12_000)
    }

    fn shard_timeout_s(&self, tier: Tier) -> u64 {
        tier.pick(900, 7200)
    }

    fn hang_is_violation(&self) -> bool {
        true
    }

    fn always_inflight(&self) -> bool {
        true
    }

    fn strategy(&self, _ctx: &Ctx) -> BoxedStrategy<TermCase> {
        let dstep = (0u8..5, pick_strategy(), prop_oneof![3 => 1u8..4, 2 => 4u8..6]).prop_map(|(nav, pick, depth)| DStep { nav, pick, depth });
        prop_oneof![
            6 => (start_strategy(), vec(pick_strategy(), 0..12), vec(dstep, 2..9), prop::bool::weighted(0.2))
                .prop_map(|(start, lead_in, steps, via_uci)| TermCase::History { start, lead_in, steps, via_uci }),
            2 => (tiny_strategy(), 300u16..1500, prop::bool::weighted(0.3)).prop_map(|(tiny, run_ms, via_uci)| TermCase::TinyRun { tiny, run_ms, via_uci }),
        ]
        .boxed()
    }

    fn enumerate(&self, ctx: &Ctx, ev: &mut Ev, report: &mut dyn FnMut(TermCase, Fail)) {
        // curated cages and bare kings, both ways
        let cages = [34usize, 35, 36, 37, 38, 39, 6, 9, 27];
        let mut i = 0u64;
        for (fen, plies) in [("8/8/8/4k3/8/8/4K3/8 w - - 0 1", 200u16), ("8/8/4k3/8/8/3K4/8/8 w - - 0 1", 320), ("7k/8/8/8/8/8/8/KB6 w - - 0 1", 120), ("8/8/8/4k3/8/8/4K3/8 w - - 0 1", 396), ("6k1/8/5K2/7P/8/8/8/8 w - - 0 1", 392)] {
            i += 1;
            if !ctx.owns(i) {
                continue;
            }
            let case = TermCase::DeepThenLong { fen: fen.to_string(), plies };
            ctx.note_inflight("C08", &case);
            if let Err(f) = Prop::check(self, ctx, &case, ev) {
                report(case, f);
                return;
            }
        }
        // every game-record length the interface accepts, 0 to 398 plies (bare kings shuffling), followed by `go depth 2`
        // and `go depth 9`: the limit must hold and the search must end whatever depth ceiling the length implies
        for len in 0..=398u16 {
            if !ctx.owns(5000 + len as u64) {
                continue;
            }
            for limit in [2u8, 9] {
                let case = TermCase::RecordLength { len, limit };
                if let Err(f) = Prop::check(self, ctx, &case, ev) {
                    report(case, f);
                    return;
                }
            }
        }
        for f in LOCKED {
            i += 1;
            if !ctx.owns(i) {
                continue;
            }
            let p = Pos::from_fen(f).unwrap();
            let first = p.legal()[0].uci();
            let case = TermCase::Script {
                lines: vec![
                    format!("position fen {}", f),
                    "go depth 1".into(),
                    format!("position fen {}", f),
                    "go depth 3".into(),
                    format!("position fen {} moves {}", f, first),
                    "go depth 2".into(),
                    format!("position fen {}", f),
                    "go depth 200".into(),
                ],
            };
            ctx.note_inflight("C08", &case);
            ev.class("locked_fortress_scripts");
            if let Err(f) = Prop::check(self, ctx, &case, ev) {
                report(case, f);
                return;
            }
        }
        for &c in &cages {
            for via_uci in [false, true] {
                i += 1;
                if !ctx.owns(i) {
                    continue;
                }
                let case = TermCase::FenRun { fen: CURATED[c].to_string(), run_ms: 1200, via_uci };
                ctx.note_inflight("C08", &case);
                if let Err(f) = Prop::check(self, ctx, &case, ev) {
                    report(case, f);
                    return;
                }
            }
        }
    }

    fn confirm_in_fresh_process(&self) -> bool {
        true
    }

    fn check(&self, ctx: &Ctx, case: &TermCase, ev: &mut Ev) -> Result<(), Fail> {
        // symptoms that depend on the clock are re-checked from a fresh process; the others are decisive
        const TIMING: &[&str] = &["depth-limited-search-waits-to-be-stopped", "stop-ignored", "engine-unresponsive-during-unlimited-search", "engine-does-not-exit-cleanly"];
        self.check_inner(ctx, case, ev).map_err(|f| if TIMING.contains(&f.signature.as_str()) { f } else { f.decisive() })
    }
}

impl C08 {
    fn check_inner(&self, _ctx: &Ctx, case: &TermCase, ev: &mut Ev) -> Result<(), Fail> {
        match case {
            TermCase::History { start, lead_in, steps, via_uci } => self.history(start, lead_in, steps, *via_uci, ev),
            TermCase::TinyRun { tiny, run_ms, via_uci } => match tiny.build() {
                Some(p) => self.unlimited(&p, *run_ms as u64, *via_uci, ev),
                None => {
                    ev.skip("construction did not yield a sane position");
                    Ok(())
                }
            },
            TermCase::FenRun { fen, run_ms, via_uci } => {
                let p = Pos::from_fen(fen).map_err(|e| Fail::new("harness", e))?;
                self.unlimited(&p, *run_ms as u64, *via_uci, ev)
            }
            TermCase::Script { lines } => self.script(lines, ev),
            TermCase::RecordLength { len, limit } => {
                let root = "8/8/4k3/8/8/3K4/8/8 w - - 0 1";
                let p0 = Pos::from_fen(root).map_err(|e| Fail::new("harness", e))?;
                let Some(cycle) = shuffle_cycles(&p0).into_iter().next() else {
                    return Err(Fail::new("harness", "no shuffle cycle for bare kings".into()));
                };
                let mut g = Game::new(root).map_err(|e| Fail::new("sane-position-not-importable", e.to_string()))?;
                for k in 0..*len as usize {
                    let t = cycle[k % 4].uci();
                    let Some(em) = eng::find_legal(&mut g, &t) else {
                        return Err(Fail::new("legal-move-not-offered", format!("{} in {}", t, g.fen())));
                    };
                    g.push_history(em);
                }
                let what = format!("position fen {} moves <{} plies of {}> ; go depth {}", root, len, moves_text(&cycle), limit);
                // a search of bare kings to depth 2 or 9 is a matter of microseconds: one that is still running after
                // 10 s - twice in a row - is not slow, it is not going to end (the statement's "running on until stopped")
                let mut out = srch::run_search(&g, &mut srch::new_table(), Some(*limit), 10_000);
                if out.watchdog_fired && out.panicked.is_none() {
                    out = srch::run_search(&g, &mut srch::new_table(), Some(*limit), 10_000);
                    if out.watchdog_fired {
                        return Err(Fail::new("depth-limited-search-does-not-end", format!("{} : twice still running after 10 s (deepest iteration printed: {:?})", what, out.depths().last())));
                    }
                }
                ev.eval();
                ev.class("searches_after_every_record_length_0_to_398");
                judge_limited(&what, *limit, &out.depths(), false, &out.panicked)?;
                if out.best.is_none() {
                    return Err(Fail::new("no-move-announced-although-moves-are-legal", what));
                }
                Ok(())
            }
            TermCase::DeepThenLong { fen, plies } => {
                let p = Pos::from_fen(fen).map_err(|e| Fail::new("harness", e))?;
                let legal: Vec<String> = p.legal().iter().map(|m| m.uci()).collect();
                let Some(cycle) = shuffle_cycles(&p).into_iter().next() else {
                    ev.skip("no shuffle cycle in this position");
                    return Ok(());
                };
                let mut record: Vec<String> = Vec::new();
                while record.len() + 4 <= (*plies as usize).min(396) {
                    record.extend(cycle.iter().map(|m| m.uci()));
                }
                // the same script on the ordinary binary and on the build with debug assertions, where an overrun of the
                // per-ply state stack or of the move buffer ("corrupting state") is a visible panic instead of silence
                for (bin, flavour) in [(uci::ENGINE, "release build"), (uci::ENGINE_CHECKED, "build with debug assertions")] {
                if !std::path::Path::new(bin).exists() {
                    ev.skip("engine build with debug assertions not available");
                    continue;
                }
                let mut s = Session::start_bin(bin, &[], &[]).map_err(|e| Fail::new("harness", e))?;
                let what = format!("{} ({}) searched to depth 255, then again after {} shuffle plies", fen, flavour, record.len());
                s.send(&format!("position fen {}", fen));
                s.send("go depth 255");
                ev.eval();
                let first = s.read_until(|l| l.starts_with("bestmove"), 8_000);
                if first.is_none() {
                    s.send("stop");
                    if s.read_until(|l| l.starts_with("bestmove"), 5_000).is_none() {
                        let pan = s.panicked();
                        s.kill();
                        return Err(Fail::new(if pan.is_some() { "search-panics" } else { "stop-ignored" }, format!("{} : first search does not end ({:?})", what, pan)));
                    }
                    ev.class("deep_then_long_ceiling_not_reached_in_time");
                }
                s.send("wait");
                for go in ["go depth 250", "go infinite", "go depth 3"] {
                    s.send(&format!("position fen {} moves {}", fen, record.join(" ")));
                    s.send(go);
                    ev.eval();
                    let limit: Option<u32> = go.strip_prefix("go depth ").and_then(|d| d.parse().ok());
                    let got = s.read_until(|l| l.starts_with("bestmove"), 8_000);
                    let lines = match got {
                        Some(l) => l,
                        None => {
                            // not answered within 8 s: still deepening (allowed - slow), or sitting there with the limit
                            // or the depth ceiling reached and waiting to be stopped (what the statement rules out)?
                            if let Some(pan) = s.panicked() {
                                s.kill();
                                return Err(Fail::new("search-panics", format!("{} : `{}` : {}", what, go, pan)));
                            }
                            if limit.is_some() && s.idle_for(1_500) == Some(true) {
                                let tail = s.transcript_tail(4);
                                s.kill();
                                return Err(Fail::new("depth-limited-search-waits-to-be-stopped", format!("{} : `{}` has not answered after 9.5 s and the engine is consuming no CPU time: it is not searching any more, yet it does not announce its move ({})", what, go, tail)));
                            }
                            s.send("stop");
                            match s.read_until(|l| l.starts_with("bestmove"), 5_000) {
                                Some(l) => {
                                    ev.class("deep_then_long_needed_stop");
                                    l
                                }
                                None => {
                                    let pan = s.panicked();
                                    s.kill();
                                    return Err(Fail::new(if pan.is_some() { "search-panics" } else { "stop-ignored" }, format!("{} : `{}` does not end ({:?})", what, go, pan)));
                                }
                            }
                        }
                    };
                    let depths = uci::info_depths(&lines);
                    if let (Some(lim), Some(&d)) = (limit, depths.iter().find(|&&d| Some(d) > limit)) {
                        s.kill();
                        return Err(Fail::new("searched-deeper-than-the-limit", format!("{} : `{}` printed `info depth {}` (limit {})", what, go, d, lim)));
                    }
                    judge_unlimited_depths(&format!("{} : `{}`", what, go), &depths)?;
                    let bm = uci::bestmove_of(&lines).unwrap_or_default();
                    if !legal.contains(&bm) {
                        s.kill();
                        return Err(Fail::new("unlimited-search-answer-not-legal", format!("{} : `{}` answered bestmove {} (legal: {:?})", what, go, bm, legal)));
                    }
                    s.send("wait");
                }
                ev.class("deep_then_long_runs");
                ev.nontrivial(mix(fp_pos(&p) ^ 0xD7 ^ *plies as u64 ^ fp_bytes(flavour.as_bytes())), || json!({"position": fen, "engine": flavour, "first": "go depth 255", "then_after_plies": record.len()}));
                match s.quit_within(5_000) {
                    Some(0) if s.panicked().is_none() => {}
                    other => {
                        let pan = s.stderr_text();
                        s.kill();
                        return Err(Fail::new("search-panics", format!("{} : exit status {:?} after quit, stderr: {}", what, other, pan.chars().take(300).collect::<String>())));
                    }
                }
                }
                Ok(())
            }
        }
    }
}
