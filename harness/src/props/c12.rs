//! C12: move text round-trips; `position … moves` accepts exactly the legal moves.

use crate::eng::{self, Game, Move};
use crate::ev::*;
use crate::gen::*;
use crate::refchess::*;
use crate::runner::{Ctx, Prop};
use crate::uci::{self, Session};
use proptest::prelude::*;
use serde::{Deserialize, Serialize};
use serde_json::json;
use std::collections::HashSet;

#[derive(Serialize, Deserialize, Clone, Debug)]
pub enum TextCase {
    /// in-process: the complete shape space [a-h][1-8][a-h][1-8] x {"",q,r,b,n} at the end of the walk,
    /// at every position with a legal en-passant capture and at every eighth ply
    InProc { walk: Walk },
    /// one shape string in one position (shrunk form / fuzz crash form)
    One { fen: String, text: String },
    /// through the real binary: `position fen F moves <prefix> S` then `show`
    Uci { walk: Walk, strings: Vec<u32> },
    /// raw input of the libFuzzer target
    Fuzz { bytes: Vec<u8> },
}

pub struct C12;

pub fn shape_string(i: u32) -> String {
    // i in 0..20480: from (64) x to (64) x suffix (5)
    let suffix = ["", "q", "r", "b", "n"][(i % 5) as usize];
    let to = ((i / 5) % 64) as u8;
    let from = ((i / 320) % 64) as u8;
    format!("{}{}{}", sq_name(from), sq_name(to), suffix)
}

/// The three in-process oracles at one position. Returns the number of illegal strings that parsed to Some(_).
pub fn oracle_at(p: &Pos, g: &mut Game, ev: &mut Ev, full_space: bool) -> Result<(), Fail> {
    let legal = p.legal();
    let legal_texts: Vec<String> = legal.iter().map(|m| m.uci()).collect();
    let legal_set: HashSet<&str> = legal_texts.iter().map(|s| s.as_str()).collect();
    let list = eng::moves(g, true);
    ev.eval();
    // (1) every engine legal move is written as the model writes it; texts pairwise distinct
    let mut seen = HashSet::new();
    for m in list.iter() {
        let t = m.uci_notation();
        if !legal_set.contains(t.as_str()) {
            return Err(Fail::new("legal-move-written-with-a-text-that-is-not-its-uci-text", format!("position {} : engine writes a move as {:?}; legal texts are {:?}", p.fen4(), t, legal_texts)));
        }
        if !seen.insert(t.clone()) {
            return Err(Fail::new("two-legal-moves-share-a-text", format!("position {} : {}", p.fen4(), t)));
        }
    }
    if seen.len() != legal_texts.len() {
        return Err(Fail::new("legal-move-has-no-text", format!("position {} : engine texts {:?} / rules {:?}", p.fen4(), seen, legal_texts)));
    }
    // the effect of the move written as t is the model's move t
    for &m in list.iter() {
        let t = m.uci_notation();
        let rm = legal.iter().find(|x| x.uci() == t).unwrap();
        // (2) reading the text back gives the same move
        match eng::guarded(|| Move::from_uci_notation(&t, g)) {
            Ok(Some(back)) => {
                if back != m {
                    return Err(Fail::new("text-does-not-read-back-as-the-same-move", format!("position {} : {} reads back as a different move ({:?})", p.fen4(), t, back.uci_notation())));
                }
            }
            Ok(None) => return Err(Fail::new("text-of-legal-move-not-readable", format!("position {} : {}", p.fen4(), t))),
            Err(pn) => return Err(Fail::new("panic", format!("reading {} in {} : {}", t, p.fen4(), pn))),
        }
        g.push(m);
        let after = eng::fen4(g);
        g.pop(m);
        let want = p.make(*rm).fen4();
        if after != want {
            return Err(Fail::new("text-names-a-different-move", format!("position {} : playing the move written {} gives {} , the rules give {}", p.fen4(), t, after, want)));
        }
        if rm.kind == K_EP || rm.kind == K_OO || rm.kind == K_OOO || rm.promo != 0 {
            ev.nontrivial(mix(fp_pos(p) ^ fp_bytes(t.as_bytes())), || json!({"position": p.fen4(), "legal_text": t, "kind": rm.kind, "promotion": rm.promo != 0}));
        }
    }
    if !full_space {
        return Ok(());
    }
    // (3) the complete shape space
    let ep_available = legal.iter().any(|m| m.kind == K_EP);
    let mut parsed_illegal = 0u64;
    for i in 0..20480u32 {
        let s = shape_string(i);
        let r = match eng::guarded(|| Move::from_uci_notation(&s, g)) {
            Ok(r) => r,
            Err(pn) => return Err(Fail::new("panic", format!("reading {} in {} : {}", s, p.fen4(), pn))),
        };
        let is_legal_text = legal_set.contains(s.as_str());
        match r {
            Some(m) => {
                let accepted = list.iter().any(|&x| x == m);
                if accepted && !is_legal_text {
                    return Err(Fail::new(
                        "illegal-string-accepted-and-played-as-another-move",
                        format!("position {} : {:?} is not the text of a legal move but is accepted and played as {}", p.fen4(), s, m.uci_notation()),
                    ));
                }
                if accepted && m.uci_notation() != s {
                    return Err(Fail::new("string-played-as-a-different-move", format!("position {} : {:?} is played as {}", p.fen4(), s, m.uci_notation())));
                }
                if !accepted && is_legal_text {
                    return Err(Fail::new("legal-text-refused", format!("position {} : {:?} is the text of a legal move but does not pass the membership test", p.fen4(), s)));
                }
                if !is_legal_text {
                    parsed_illegal += 1;
                    if parsed_illegal <= 2 || (ep_available && parsed_illegal <= 6) {
                        ev.nontrivial(mix(fp_pos(p) ^ fp_bytes(s.as_bytes())), || json!({"position": p.fen4(), "illegal_string_that_parses": s, "ep_capture_available": ep_available}));
                    }
                }
            }
            None => {
                if is_legal_text {
                    return Err(Fail::new("legal-text-refused", format!("position {} : {:?} is the text of a legal move but cannot be read", p.fen4(), s)));
                }
            }
        }
    }
    ev.evals(20480);
    ev.class("positions_with_full_shape_space");
    ev.class_n("illegal_strings_that_parse_and_are_refused", parsed_illegal);
    if ep_available {
        ev.class("full_space_positions_with_ep_capture_available");
    }
    Ok(())
}

impl C12 {
    fn uci_case(&self, walk: &Walk, strings: &[u32], ev: &mut Ev) -> Result<(), Fail> {
        let Some(r) = resolve_walk(walk) else {
            ev.skip("construction did not yield a sane position");
            return Ok(());
        };
        // candidate strings: every legal text, every diagonal pawn step to an empty square, the generated sample
        let p = &r.end;
        let legal = p.legal();
        let mut cands: Vec<String> = legal.iter().map(|m| m.uci()).collect();
        for s in 0..64u8 {
            if p.b[s as usize].to_ascii_lowercase() == b'p' {
                let (rk, f) = rf(s);
                for dr in [-1, 1] {
                    for df in [-1, 1] {
                        if let Some(t) = sq(rk + dr, f + df) {
                            if p.b[t as usize] == b'.' {
                                cands.push(format!("{}{}", sq_name(s), sq_name(t)));
                            }
                        }
                    }
                }
            }
        }
        for &i in strings {
            cands.push(shape_string(i % 20480));
        }
        cands.truncate(300);
        let prefix = moves_text(&r.moves);
        let start_fen = r.start.fen6();
        let mut sess = Session::start(&[]).map_err(|e| Fail::new("harness", e))?;
        let legal_texts: Vec<String> = legal.iter().map(|m| m.uci()).collect();
        let mut n_illegal = 0;
        for s in &cands {
            ev.eval();
            let cmd = format!("position fen {} moves {} {}", start_fen, prefix, s);
            sess.send(&cmd);
            sess.send("show");
            let out = sess.read_until(|l| l.starts_with("   a b c") || l.starts_with("error: No game"), 15_000);
            let Some(lines) = out else {
                let tr = sess.transcript_tail(12);
                sess.kill();
                return Err(Fail::new("engine-unresponsive-after-position", format!("after {:?}: {}", cmd, tr)));
            };
            let errors: Vec<&String> = lines.iter().filter(|l| l.starts_with("error:")).collect();
            let shown = uci::parse_show(&lines);
            if legal_texts.contains(s) {
                let rm = legal.iter().find(|m| &m.uci() == s).unwrap();
                let want = p.make(*rm).fen4();
                match shown {
                    Some(sh) if uci::fen4_of(&sh.fen) == want && errors.is_empty() => {}
                    _ => {
                        sess.kill();
                        return Err(Fail::new("legal-text-refused", format!("{:?} : expected the game to show {} , got errors {:?} / show {:?}", cmd, want, errors, lines.iter().find(|l| l.starts_with("Fen:")))));
                    }
                }
            } else {
                n_illegal += 1;
                // an error must be reported; whatever is shown afterwards must not be a third position
                let invalid_move_error = errors.iter().any(|e| e.contains("Invalid move"));
                if !invalid_move_error {
                    sess.kill();
                    return Err(Fail::new("illegal-string-accepted-and-played-as-another-move", format!("{:?} : no 'Invalid move' error; show says {:?}", cmd, lines.iter().find(|l| l.starts_with("Fen:")))));
                }
                if let Some(sh) = shown {
                    if uci::fen4_of(&sh.fen) != p.fen4() {
                        sess.kill();
                        return Err(Fail::new("illegal-string-changed-the-position", format!("{:?} : after the error the game shows {} , position before the string was {}", cmd, sh.fen, p.fen4())));
                    }
                }
            }
        }
        ev.class("uci_sessions");
        ev.class_n("uci_illegal_strings_refused", n_illegal);
        ev.nontrivial(mix(fp_pos(p) ^ 0xC12), || json!({"uci_session": {"start": start_fen, "moves": prefix, "strings_tried": cands.len(), "sample": cands.iter().take(8).collect::<Vec<_>>()}}));
        sess.quit();
        Ok(())
    }
}

impl Prop for C12 {
    type Case = TextCase;

    fn id(&self) -> &'static str {
        "C12"
    }

    fn rule(&self) -> String {
        "Cases: generated walks (biased to en passant for both colours, castling, promotions). In-process, at the end of each walk, at every position with a legal en-passant capture and at every eighth ply: (1) the engine's text of every legal move is the reference model's text, texts pairwise distinct, playing it gives the model's successor; (2) from_uci_notation(text) returns that very move; (3) for ALL 20 480 strings of move shape ([a-h][1-8][a-h][1-8] + '', q, r, b, n): a string that parses to a move that is a member of the checked list (the test `position` performs) must be a legal text and the move's own text must be that string, and every legal text must be accepted. Through the real binary: `position fen F moves <game> S` + `show` for up to 300 strings per session (all legal texts, all diagonal pawn steps onto empty squares, generated samples): legal text => shown FEN is the model successor; otherwise an 'Invalid move' error and no third position. evaluations = strings judged. Non-trivial: en-passant / castling / promotion texts, and illegal strings that nevertheless parse to Some(move); distinct by position and string.".into()
    }

    fn assumptions(&self) -> Vec<String> {
        vec![
            "strings outside the stated shape (upper-case promotion letters, trailing characters) are not asserted on".into(),
            "the UCI sessions rely on `show`, which prints the game the `position` command left behind".into(),
        ]
    }

    fn cases(&self, tier: Tier) -> u32 {
        tier.pick(12_000, 200_000)
    }

    fn shard_timeout_s(&self, tier: Tier) -> u64 {
        tier.pick(900, 7200)
    }

    fn strategy(&self, ctx: &Ctx) -> BoxedStrategy<TextCase> {
        let uci_weight = ctx.tier.pick(1, 1);
        prop_oneof![
            40 => walk_strategy(false).prop_map(|walk| TextCase::InProc { walk }),
            uci_weight => (walk_strategy(false), proptest::collection::vec(0u32..20480, 20..200)).prop_map(|(walk, strings)| TextCase::Uci { walk, strings }),
        ]
        .boxed()
    }

    fn check(&self, _ctx: &Ctx, case: &TextCase, ev: &mut Ev) -> Result<(), Fail> {
        match case {
            TextCase::One { fen, text } => {
                let p = Pos::from_fen(fen).map_err(|e| Fail::new("harness", e))?;
                let mut g = Game::new(fen).map_err(|e| Fail::new("sane-position-not-importable", e.to_string()))?;
                oracle_at(&p, &mut g, ev, false)?;
                let legal_texts: Vec<String> = p.legal().iter().map(|m| m.uci()).collect();
                let list = eng::moves(&mut g, true);
                if let Some(m) = Move::from_uci_notation(text, &g) {
                    let accepted = list.iter().any(|&x| x == m);
                    if accepted && (!legal_texts.contains(text) || &m.uci_notation() != text) {
                        return Err(Fail::new("illegal-string-accepted-and-played-as-another-move", format!("position {} : {:?} is accepted and played as {}", fen, text, m.uci_notation())));
                    }
                }
                Ok(())
            }
            TextCase::InProc { walk } => {
                let Some(r) = resolve_walk(walk) else {
                    ev.skip("construction did not yield a sane position");
                    return Ok(());
                };
                let mut g = Game::new(&r.start.fen6()).map_err(|e| Fail::new("sane-position-not-importable", e.to_string()))?;
                let mut p = r.start.clone();
                let n = r.moves.len();
                for i in 0..=n {
                    if p.pseudo().len() <= 250 {
                        let ep = p.legal().iter().any(|m| m.kind == K_EP);
                        let full = i == n || ep || i % 8 == 0;
                        oracle_at(&p, &mut g, ev, full).map_err(|f| {
                            if f.signature.contains("string") || f.signature.contains("text") {
                                // keep the minimal reproduction readable: the position and the string
                                f
                            } else {
                                f
                            }
                        })?;
                    }
                    if i < n {
                        let m = r.moves[i];
                        let Some(em) = eng::find_legal(&mut g, &m.uci()) else {
                            return Err(Fail::new("legal-move-not-offered", format!("{} in {}", m.uci(), g.fen())));
                        };
                        g.push_history(em);
                        p = p.make(m);
                    }
                }
                Ok(())
            }
            TextCase::Uci { walk, strings } => self.uci_case(walk, strings, ev),
            TextCase::Fuzz { bytes } => {
                ev.eval();
                if bytes.len() < 6 {
                    return Ok(());
                }
                fuzz_one(bytes)
            }
        }
    }

    fn post_merge(&self, tier: Tier, seed: u64, _outdir: &str, _nshards: u32) -> (Vec<Fail>, serde_json::Value) {
        if tier != Tier::Thorough {
            return (Vec::new(), json!({}));
        }
        let c = crate::fuzz::campaign("movetext", "/verif/harness/fuzz/seeds/movetext", None, 150_000, seed, 8, 16);
        let mut fails = Vec::new();
        for a in &c.artifacts {
            let case = serde_json::to_value(TextCase::Fuzz { bytes: a.clone() }).unwrap();
            let r = if a.len() >= 6 { fuzz_one(a) } else { Ok(()) };
            match r {
                Err(f) => fails.push(f.with_case(case)),
                Ok(()) => fails.push(Fail::new("fuzz-target-crashed", format!("libFuzzer saved {:?} as a crash, the oracle accepts it when replayed", a)).with_case(case)),
            }
        }
        (fails, json!({"libfuzzer_movetext": {"executions": c.executions, "workers": c.workers, "crash_artifacts": c.artifacts.len(), "notes": c.notes}}))
    }

    fn enumerate(&self, ctx: &Ctx, ev: &mut Ev, report: &mut dyn FnMut(TextCase, Fail)) {
        for (i, _) in CURATED.iter().enumerate() {
            if !ctx.owns(i as u64) {
                continue;
            }
            let case = TextCase::InProc { walk: Walk { start: Start::Curated(i as u16), picks: vec![] } };
            if let Err(f) = self.check(ctx, &case, ev) {
                report(case, f);
                return;
            }
        }
    }
}

/// Entry point of the libFuzzer target: byte 0 selects a curated root, bytes 1-2 up to two picked plies,
/// the rest is mapped into the move-shape alphabet.
pub fn fuzz_one(data: &[u8]) -> Result<(), Fail> {
    let root = data[0] as usize % CURATED.len();
    let mut p = Pos::from_fen(CURATED[root]).map_err(|e| Fail::new("harness", e))?;
    let mut g = Game::new(CURATED[root]).map_err(|e| Fail::new("sane-position-not-importable", e.to_string()))?;
    for &b in &data[1..3] {
        if b == 0 {
            continue;
        }
        let legal = p.legal();
        if legal.is_empty() {
            break;
        }
        let m = legal[b as usize % legal.len()];
        let Some(em) = eng::find_legal(&mut g, &m.uci()) else {
            return Err(Fail::new("legal-move-not-offered", format!("{} in {}", m.uci(), g.fen())));
        };
        g.push_history(em);
        p = p.make(m);
    }
    let t = &data[3..];
    if t.len() < 4 {
        return Ok(());
    }
    let mut s = String::new();
    s.push((b'a' + t[0] % 8) as char);
    s.push((b'1' + t[1] % 8) as char);
    s.push((b'a' + t[2] % 8) as char);
    s.push((b'1' + t[3] % 8) as char);
    if t.len() > 4 {
        s.push_str(["", "q", "r", "b", "n"][t[4] as usize % 5]);
    }
    let legal_texts: Vec<String> = p.legal().iter().map(|m| m.uci()).collect();
    let list = eng::moves(&mut g, true);
    match eng::guarded(|| Move::from_uci_notation(&s, &g)) {
        Err(pn) => Err(Fail::new("panic", format!("reading {} in {} : {}", s, p.fen4(), pn))),
        Ok(None) => {
            if legal_texts.contains(&s) {
                return Err(Fail::new("legal-text-refused", format!("position {} : {:?}", p.fen4(), s)));
            }
            Ok(())
        }
        Ok(Some(m)) => {
            let accepted = list.iter().any(|&x| x == m);
            if accepted && (!legal_texts.contains(&s) || m.uci_notation() != s) {
                return Err(Fail::new("illegal-string-accepted-and-played-as-another-move", format!("position {} : {:?} is accepted and played as {}", p.fen4(), s, m.uci_notation())));
            }
            if !accepted && legal_texts.contains(&s) {
                return Err(Fail::new("legal-text-refused", format!("position {} : {:?}", p.fen4(), s)));
            }
            Ok(())
        }
    }
}
