//! C05: different positions get different hashes.

use crate::eng::{self, Game};
use crate::ev::*;
use crate::gen::*;
use crate::refchess::*;
use crate::runner::{Ctx, Prop};
use proptest::prelude::*;
use serde::{Deserialize, Serialize};
use serde_json::{json, Value};
use std::cell::RefCell;
use std::collections::HashMap;

#[derive(Serialize, Deserialize, Clone, Debug)]
pub enum CollCase {
    /// positions along a walk enter the explored set; `vary` picks the plies whose single-feature
    /// variations are enumerated exhaustively
    Walk { walk: Walk, vary: Vec<u16> },
    /// two position texts that must hash differently (shrunk form of a collision)
    Pair { a: String, b: String },
    /// all single-feature variations of one position
    Vary { fen: String },
}

pub struct C05 {
    /// engine hash -> (position fingerprint, FEN) of the explored set of this shard
    seen: RefCell<HashMap<u64, (u64, String)>>,
}

impl C05 {
    pub fn new() -> C05 {
        C05 { seen: RefCell::new(HashMap::new()) }
    }
}

fn import(fen: &str) -> Result<Game, Fail> {
    match eng::guarded(|| Game::new(fen)) {
        Ok(Ok(g)) => Ok(g),
        Ok(Err(e)) => Err(Fail::new("well-formed-position-not-importable", format!("{} : {}", fen, e))),
        Err(pn) => Err(Fail::new("panic", format!("importing {} : {}", fen, pn))),
    }
}

const CONTENTS: &[u8] = b".PNBRQpnbrq";

/// Every single-feature variation of `p`: (feature name, varied position)
pub fn variations(p: &Pos) -> Vec<(&'static str, Pos)> {
    let mut v = Vec::with_capacity(800);
    {
        let mut q = p.clone();
        q.white = !q.white;
        v.push(("side", q));
    }
    for i in 0..4 {
        let mut q = p.clone();
        q.cr[i] = !q.cr[i];
        v.push(("right", q));
    }
    for e in 0..9u8 {
        let mut q = p.clone();
        q.ep = if e == 8 { None } else { Some(e) };
        if q.ep != p.ep {
            v.push(("ep", q));
        }
    }
    for s in 0..64 {
        if p.b[s].to_ascii_lowercase() == b'k' {
            continue;
        }
        for &c in CONTENTS {
            if c != p.b[s] {
                let mut q = p.clone();
                q.b[s] = c;
                v.push(("square", q));
            }
        }
    }
    // exchanges: the contents of two occupied squares swapped (two features at once; in particular two men of
    // the same kind and opposite colours trading places, which no single-square change can produce)
    let occ: Vec<usize> = (0..64).filter(|&s| p.b[s] != b'.' && p.b[s].to_ascii_lowercase() != b'k').collect();
    for (i, &s1) in occ.iter().enumerate() {
        for &s2 in &occ[i + 1..] {
            if p.b[s1] == p.b[s2] {
                continue;
            }
            let pawn_on_edge = |c: u8, s: usize| c.to_ascii_lowercase() == b'p' && (s / 8 == 0 || s / 8 == 7);
            if pawn_on_edge(p.b[s1], s2) || pawn_on_edge(p.b[s2], s1) {
                continue;
            }
            let mut q = p.clone();
            q.b.swap(s1, s2);
            v.push(("exchange", q));
        }
    }
    v
}

impl C05 {
    fn vary(&self, p: &Pos, ev: &mut Ev) -> Result<(), Fail> {
        let base = import(&p.fen6())?;
        let mut hs: HashMap<u64, String> = HashMap::with_capacity(1024);
        hs.insert(base.hash(), p.fen4());
        let vars = variations(p);
        let n = vars.len() as u64;
        for (feature, q) in vars {
            let fen = q.fen6();
            let g = import(&fen)?;
            if let Some(other) = hs.insert(g.hash(), q.fen4()) {
                return Err(Fail::new(
                    if feature == "exchange" { "two-positions-share-a-hash" } else { "single-feature-variation-keeps-hash" },
                    format!("{} and {} (a {} variation of {}) both hash {:X}", other, q.fen4(), feature, p.fen4(), g.hash()),
                ));
            }
        }
        ev.evals(n);
        ev.class_n("single_feature_variations_and_exchanges", n);
        ev.class("positions_varied");
        Ok(())
    }

    fn visit(&self, p: &Pos, g: &Game, ev: &mut Ev) -> Result<(), Fail> {
        ev.eval();
        let key = fp_pos(p);
        let h = g.hash();
        let mut seen = self.seen.borrow_mut();
        match seen.get(&h) {
            Some((k, fen)) => {
                if *k != key {
                    let pair = CollCase::Pair { a: format!("{} 0 1", fen), b: p.fen6() };
                    return Err(Fail::new("two-positions-share-a-hash", format!("{} and {} both hash {:X}", fen, p.fen4(), h)).with_case(serde_json::to_value(pair).unwrap()));
                }
            }
            None => {
                // the explored set of one shard is capped at 3 M positions (memory); visits beyond that are
                // still hashed and compared against the set, but not added to it
                if seen.len() < 3_000_000 {
                    seen.insert(h, (key, p.fen4()));
                    if !ev.frozen {
                        ev.pairs.push((h, key));
                    }
                    ev.nontrivial(key, || json!({"position": p.fen4(), "hash": format!("{:X}", h)}));
                } else {
                    ev.class("visits_beyond_the_explored_set_cap");
                }
            }
        }
        Ok(())
    }
}

impl Prop for C05 {
    type Case = CollCase;

    fn id(&self) -> &'static str {
        "C05"
    }

    fn rule(&self) -> String {
        "Cases: generated walks; every position visited (and every legal successor of it) enters the explored set keyed by the reference model's (placement, side, rights, en-passant file); within a shard and again across all shards after the merge, equal engine hashes must mean equal keys. For sampled positions ALL single-feature variations are enumerated (side flipped; each of 4 rights toggled; each of the other 8-9 en-passant values; each non-king square replaced by each of the 10 other contents) and all exchanges of the contents of two occupied non-king squares (two men trading places, e.g. a white and a black knight), imported from text, and must all hash differently from the origin and from each other. A state laboratory (boards on which all four castling rights and four en-passant files are possible at once: all 80 combinations, both colours) must hash to pairwise different values. evaluations = positions hashed (explored set visits + variations). Non-trivial = every distinct position of the explored set (distinct by key); variation counts are reported separately.".into()
    }

    fn assumptions(&self) -> Vec<String> {
        vec![
            "a true 64-bit collision among ~10^7 random-keyed positions has probability about 3e-6; it would be reported as a violation".into(),
            "variations need not be sane positions (a right without its rook, an en-passant file without a pawn): the statement is about the hash function, and the importer accepts them".into(),
        ]
    }

    fn cases(&self, tier: Tier) -> u32 {
        tier.pick(24_000, 300_000)
    }

    fn strategy(&self, _ctx: &Ctx) -> BoxedStrategy<CollCase> {
        (walk_strategy(true), proptest::collection::vec(any::<u16>(), 0..3)).prop_map(|(walk, vary)| CollCase::Walk { walk, vary }).boxed()
    }

    fn check(&self, _ctx: &Ctx, case: &CollCase, ev: &mut Ev) -> Result<(), Fail> {
        match case {
            CollCase::Pair { a, b } => {
                let (pa, pb) = (Pos::from_fen(a).map_err(|e| Fail::new("harness", e))?, Pos::from_fen(b).map_err(|e| Fail::new("harness", e))?);
                if pa == pb {
                    return Ok(());
                }
                let (ga, gb) = (import(a)?, import(b)?);
                ev.eval();
                if ga.hash() == gb.hash() {
                    return Err(Fail::new("two-positions-share-a-hash", format!("{} and {} both hash {:X}", a, b, ga.hash())));
                }
                Ok(())
            }
            CollCase::Vary { fen } => {
                let p = Pos::from_fen(fen).map_err(|e| Fail::new("harness", e))?;
                self.vary(&p, ev)
            }
            CollCase::Walk { walk, vary } => {
                let Some(r) = resolve_walk(walk) else {
                    ev.skip("construction did not yield a sane position");
                    return Ok(());
                };
                let mut g = import(&r.start.fen6())?;
                let mut p = r.start.clone();
                let n = r.moves.len();
                let vary_at: Vec<usize> = vary.iter().map(|&v| (v as usize * (n + 1)) >> 16).collect();
                for i in 0..=n {
                    self.visit(&p, &g, ev)?;
                    if vary_at.contains(&i) {
                        self.vary(&p, ev)?;
                    }
                    // successors widen the explored set cheaply
                    if p.pseudo().len() <= 250 {
                        for m in p.legal() {
                            let Some(em) = eng::find_legal(&mut g, &m.uci()) else {
                                return Err(Fail::new("legal-move-not-offered", format!("{} in {}", m.uci(), g.fen())));
                            };
                            let q = p.make(m);
                            g.push(em);
                            let r = self.visit(&q, &g, ev);
                            g.pop(em);
                            r?;
                        }
                    }
                    if i < n {
                        let m = r.moves[i];
                        let Some(em) = eng::find_legal(&mut g, &m.uci()) else {
                            return Err(Fail::new("legal-move-not-offered", format!("{} in {}", m.uci(), g.fen())));
                        };
                        g.push(em);
                        p = p.make(m);
                    }
                }
                Ok(())
            }
        }
    }

    fn enumerate(&self, ctx: &Ctx, ev: &mut Ev, report: &mut dyn FnMut(CollCase, Fail)) {
        for (i, f) in CURATED.iter().enumerate() {
            if !ctx.owns(i as u64) {
                continue;
            }
            let case = CollCase::Vary { fen: f.to_string() };
            if let Err(fail) = self.check(ctx, &case, ev) {
                report(case, fail);
                return;
            }
        }
        // state laboratory: on boards where every castling right and several en-passant files are possible at once,
        // all combinations of (rights, en-passant file) - 16 x 5 states per board and side - must hash differently
        if ctx.owns(900) {
            for (board, files) in [("r3k2r/8/8/pPpPpPpP/8/8/8/R3K2R w", [0u8, 2, 4, 6]), ("r3k2r/8/8/PpPpPpPp/8/8/8/R3K2R w", [1u8, 3, 5, 7])] {
                for mirrored in [false, true] {
                    let mut hs: HashMap<u64, String> = HashMap::new();
                    for rights in 0..16u8 {
                        for e in 0..5usize {
                            let crs: String = "KQkq".chars().enumerate().filter(|(i, _)| rights >> i & 1 == 1).map(|(_, c)| c).collect();
                            let eps = if e == 0 { "-".to_string() } else { format!("{}6", (b'a' + files[e - 1]) as char) };
                            let fen = format!("{} {} {} 0 1", board, if crs.is_empty() { "-" } else { &crs }, eps);
                            let Ok(p0) = Pos::from_fen(&fen) else { continue };
                            let p = if mirrored { p0.mirror() } else { p0 };
                            if !p.sane() {
                                continue;
                            }
                            ev.eval();
                            ev.class("state_laboratory_positions");
                            match import(&p.fen6()) {
                                Ok(g) => {
                                    if let Some(other) = hs.insert(g.hash(), p.fen4()) {
                                        let pair = CollCase::Pair { a: format!("{} 0 1", other), b: p.fen6() };
                                        report(pair, Fail::new("two-positions-share-a-hash", format!("{} and {} both hash {:X}", other, p.fen4(), g.hash())));
                                        return;
                                    }
                                }
                                Err(f) => {
                                    report(CollCase::Vary { fen: p.fen6() }, f);
                                    return;
                                }
                            }
                        }
                    }
                }
            }
        }
        if ctx.tier == Tier::Thorough {
            // the exhaustive K+X v K tables join the explored set
            for &x in b"QRBNPqrbnp" {
                let mut failed = None;
                let mut n = 0;
                crate::props::poswalk::kxk_positions(x, |i, p| {
                    if failed.is_some() || !ctx.owns(i) {
                        return;
                    }
                    n += 1;
                    match Game::new(&p.fen6()) {
                        Ok(g) => {
                            if let Err(f) = self.visit(p, &g, ev) {
                                failed = Some((CollCase::Vary { fen: p.fen6() }, f));
                            }
                        }
                        Err(e) => failed = Some((CollCase::Vary { fen: p.fen6() }, Fail::new("well-formed-position-not-importable", e.to_string()))),
                    }
                });
                ev.class_n(&format!("exhaustive_K{}K_positions", x as char), n);
                if let Some((c, f)) = failed {
                    report(c, f);
                    return;
                }
            }
        }
    }

    fn post_merge(&self, _tier: Tier, _seed: u64, outdir: &str, nshards: u32) -> (Vec<Fail>, Value) {
        // cross-shard injectivity: (hash, key) pairs of all shards, sorted by hash
        let mut all: Vec<(u64, u64)> = Vec::new();
        for sh in 0..nshards {
            let v = read_u64s(&format!("{}/pairs-{}.bin", outdir, sh));
            all.extend(v.chunks_exact(2).map(|c| (c[0], c[1])));
        }
        all.sort_unstable();
        all.dedup();
        let mut fails = Vec::new();
        for w in all.windows(2) {
            if w[0].0 == w[1].0 && w[0].1 != w[1].1 && fails.len() < 3 {
                fails.push(Fail::new(
                    "two-positions-share-a-hash",
                    format!("cross-shard: hash {:X} belongs to two different positions (fingerprints {:X} and {:X}); re-run with VERIF_SEED unchanged and a single shard to obtain the FENs", w[0].0, w[0].1, w[1].1),
                ));
            }
        }
        let mut hashes: Vec<u64> = all.iter().map(|x| x.0).collect();
        hashes.dedup();
        (fails, json!({"explored_set_distinct_positions_all_shards": all.len(), "explored_set_distinct_hashes_all_shards": hashes.len()}))
    }
}
