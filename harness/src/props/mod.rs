//! Property registry
pub mod c03;
pub mod c05;
pub mod c07;
pub mod c08;
pub mod c09;
pub mod c10;
pub mod c12;
pub mod c13;
pub mod c14;
pub mod c15;
pub mod c16;
pub mod c17;
pub mod c19;
pub mod c20;
pub mod golden;
pub mod hist;
pub mod poswalk;

use crate::runner::DynProp;

pub fn all() -> Vec<Box<dyn DynProp>> {
    vec![
        Box::new(poswalk::PosWalk::new(poswalk::Which::C01)),
        Box::new(poswalk::PosWalk::new(poswalk::Which::C02)),
        Box::new(poswalk::PosWalk::new(poswalk::Which::C04)),
        Box::new(poswalk::PosWalk::new(poswalk::Which::C11)),
        Box::new(c03::C03),
        Box::new(c05::C05::new()),
        Box::new(c16::C16),
        Box::new(hist::Hist { which: hist::Which::C06 }),
        Box::new(hist::Hist { which: hist::Which::C18 }),
        Box::new(c07::C07),
        Box::new(c08::C08),
        Box::new(c09::C09),
        Box::new(c10::C10),
        Box::new(c12::C12),
        Box::new(c13::C13),
        Box::new(c14::C14),
        Box::new(c15::C15),
        Box::new(c17::C17),
        Box::new(c19::C19),
        Box::new(c20::C20),
    ]
}

pub fn by_id(id: &str) -> Option<Box<dyn DynProp>> {
    all().into_iter().find(|p| p.id() == id)
}

/// Cheap part of the oracle self-test, run before every check (well under a second)
pub fn selftest_quick() -> Result<(), String> {
    use crate::refchess::*;
    crate::gen::curated_positions()?;
    for &(fen, d, n) in PERFT_TABLE.iter().filter(|t| t.2 < 500_000) {
        let p = Pos::from_fen(fen)?;
        let got = perft(&p, d);
        if got != n {
            return Err(format!("reference perft({}) of {} = {}, published {}", d, fen, got, n));
        }
    }
    // every other literal used as a root by a check
    let literals: Vec<&str> = hist::PERPETUAL.iter().copied().chain(hist::MATE_ROOTS.iter().copied()).chain(c14::POSITIONS.iter().filter_map(|p| p.strip_prefix("fen "))).chain(c14::DEAD.iter().filter_map(|p| p.strip_prefix("fen "))).chain(c19::OUTCOMES.iter().copied()).collect();
    for f in literals {
        let p = Pos::from_fen(f).map_err(|e| format!("literal unreadable: {} ({})", f, e))?;
        if !p.sane() {
            return Err(format!("literal not sane: {}", f));
        }
    }
    for f in c14::DEAD {
        let p = Pos::from_fen(f.strip_prefix("fen ").ok_or("C14 dead root must be given as a FEN")?)?;
        if !p.legal().is_empty() {
            return Err(format!("C14 dead root has legal moves: {}", f));
        }
    }
    for f in c08::LOCKED {
        let mut p = Pos::from_fen(f)?;
        if !p.sane() {
            return Err(format!("locked fortress not sane: {}", f));
        }
        for ply in 0..420 {
            let l = p.legal();
            if l.len() != 1 {
                return Err(format!("locked fortress {} has {} legal moves after {} plies", f, l.len(), ply));
            }
            p = p.make(l[0]);
        }
    }
    for f in hist::MATE_ROOTS {
        let p = Pos::from_fen(f)?;
        if !p.legal().into_iter().any(|m| p.make(m).legal().is_empty()) {
            return Err(format!("mate root without a mating move: {}", f));
        }
    }
    let z = Zob::repo();
    for (fen, hash) in golden::GOLDEN {
        let p = Pos::from_fen(fen)?;
        if !p.sane() {
            return Err(format!("golden literal not sane: {}", fen));
        }
        if format!("{:X}", z.hash(&p)) != *hash {
            return Err(format!("golden table entry {} does not match the key-file combination {:X}", fen, z.hash(&p)));
        }
    }
    Ok(())
}

/// Full self-test (setup_cmd): published perft totals to depth 5, FEN round trips, curated literals
pub fn selftest() -> Result<(), String> {
    crate::refchess::selftest()?;
    selftest_quick()?;
    for p in crate::gen::curated_positions()? {
        let q = crate::refchess::Pos::from_fen(&p.fen6())?;
        if q != p {
            return Err(format!("model FEN round trip failed for {}", p.fen4()));
        }
    }
    Ok(())
}
