//! C16: the score is the piece-square sum of the board.

use crate::eng::{self, Game};
use crate::ev::*;
use crate::gen::*;
use crate::refchess::*;
use crate::runner::{Ctx, Prop};
use crate::sc;
use proptest::prelude::*;
use serde::{Deserialize, Serialize};
use serde_json::json;

fn table(c: u8, end: bool) -> &'static [i16; 64] {
    match c.to_ascii_lowercase() {
        b'q' => &sc::QUEEN_SCORES,
        b'r' => &sc::ROOK_SCORES,
        b'b' => &sc::BISHOP_SCORES,
        b'n' => &sc::KNIGHT_SCORES,
        b'p' => &sc::PAWN_SCORES,
        _ => {
            if end {
                &sc::KING_SCORES_END
            } else {
                &sc::KING_SCORES_MIDDLE
            }
        }
    }
}

/// Independent piece-square sum over the model's board: tables are written from White's side with
/// rank 8 first, so a white piece on rank r reads row 7-r, a black piece reads row r, negated.
pub fn pst(p: &Pos, end: bool) -> i32 {
    let mut s = 0i32;
    for q in 0..64usize {
        let c = p.b[q];
        if c == b'.' {
            continue;
        }
        let t = table(c, end);
        let (r, f) = (q / 8, q % 8);
        if c.is_ascii_uppercase() {
            s += t[(7 - r) * 8 + f] as i32;
        } else {
            s -= t[r * 8 + f] as i32;
        }
    }
    s
}

/// Sum of absolute piece-square values of everything but the kings (the quantity the phase switch looks at)
pub fn pst_abs_without_kings(p: &Pos) -> i32 {
    let mut s = 0i32;
    for q in 0..64usize {
        let c = p.b[q];
        if c == b'.' || c.to_ascii_lowercase() == b'k' {
            continue;
        }
        let t = table(c, false);
        let (r, f) = (q / 8, q % 8);
        s += if c.is_ascii_uppercase() { t[(7 - r) * 8 + f] as i32 } else { t[r * 8 + f] as i32 };
    }
    s
}

#[derive(Serialize, Deserialize, Clone, Debug)]
pub struct ScoreCase {
    pub walk: Walk,
    pub import_at: u16,
    /// how many search-style push/pop excursions after each move
    pub noise: u8,
}

pub struct C16;

fn check_score(g: &Game, p: &Pos, tag: &str, ev: &mut Ev) -> Result<(), Fail> {
    let (a, b) = (pst(p, false), pst(p, true));
    let s = g.score() as i32;
    ev.eval();
    if s == a && s == b {
        ev.class("score_tables_coincide");
    } else if s == a {
        ev.class("score_by_middlegame_king_table");
    } else if s == b {
        ev.class("score_by_endgame_king_table");
    } else {
        return Err(Fail::new(
            "score-is-not-the-piece-square-sum",
            format!("{} game at {} : score {} , piece-square sum {} (middlegame kings) / {} (endgame kings)", tag, p.fen4(), s, a, b),
        ));
    }
    Ok(())
}

impl Prop for C16 {
    type Case = ScoreCase;

    fn id(&self) -> &'static str {
        "C16"
    }

    fn rule(&self) -> String {
        "Cases: generated walks (capture-biased picks, lengths to 397) imported from text at a generated ply and continued with push_history; after every move a few search-style push/pop excursions two plies deep; at every ply score() of the played game and of a fresh text import must equal the independent piece-square sum over the reference board with both kings by the middlegame table or both by the endgame table; the colour-mirrored walk is played alongside and must score exactly the negation. evaluations = score comparisons. Non-trivial position: non-king material below the endgame threshold region (< 3000) or a king move after that point; distinct by position.".into()
    }

    fn assumptions(&self) -> Vec<String> {
        vec![
            "tables are read from /repo/src/chess/scores.rs (the statement defines the score in terms of them); the board comes from the reference model, not from the engine".into(),
            "which of the two king tables applies is not pinned (the phase flag is private and sticky); only 'the same table for both kings' is".into(),
        ]
    }

    fn cases(&self, tier: Tier) -> u32 {
        tier.pick(40_000, 5_000_000)
    }

    fn strategy(&self, _ctx: &Ctx) -> BoxedStrategy<ScoreCase> {
        (walk_strategy(true), any::<u16>(), 0u8..4).prop_map(|(walk, import_at, noise)| ScoreCase { walk, import_at, noise }).boxed()
    }

    fn check(&self, _ctx: &Ctx, case: &ScoreCase, ev: &mut Ev) -> Result<(), Fail> {
        let Some(r) = resolve_walk(&case.walk) else {
            ev.skip("construction did not yield a sane position");
            return Ok(());
        };
        let n = r.moves.len();
        let k = (case.import_at as usize * (n + 1)) >> 16;
        let mut p = r.start.clone();
        for &m in &r.moves[..k] {
            p = p.make(m);
        }
        let import = |fen: &str| -> Result<Game, Fail> {
            match eng::guarded(|| Game::new(fen)) {
                Ok(Ok(g)) => Ok(g),
                Ok(Err(e)) => Err(Fail::new("sane-position-not-importable", format!("{} : {}", fen, e))),
                Err(pn) => Err(Fail::new("panic", format!("importing {} : {}", fen, pn))),
            }
        };
        let mut g = import(&p.fen6())?;
        let mut pm = p.mirror();
        let mut gm = import(&pm.fen6())?;
        let mut seen_endgame = false;
        check_score(&g, &p, "imported", ev)?;
        if g.score() as i32 != -(gm.score() as i32) {
            return Err(Fail::new("mirrored-position-score-not-negated", format!("{} scores {} , its colour mirror {} scores {}", p.fen4(), g.score(), pm.fen4(), gm.score())));
        }
        for &m in &r.moves[k..] {
            let text = m.uci();
            let Some(em) = eng::find_legal(&mut g, &text) else {
                return Err(Fail::new("legal-move-not-offered", format!("{} in {}", text, g.fen())));
            };
            let mm = mirror_move(m);
            let Some(emm) = eng::find_legal(&mut gm, &mm.uci()) else {
                return Err(Fail::new("legal-move-not-offered", format!("{} in {}", mm.uci(), gm.fen())));
            };
            let king_move = p.b[m.from as usize].to_ascii_lowercase() == b'k';
            g.push_history(em);
            gm.push_history(emm);
            p = p.make(m);
            pm = pm.make(mm);
            // search-style noise: play / take back, two plies deep
            if case.noise > 0 && p.pseudo().len() <= 250 {
                let l1 = eng::moves(&mut g, false);
                for &x in l1.iter().take(case.noise as usize * 2) {
                    g.push(x);
                    let l2 = eng::moves(&mut g, false);
                    if let Some(&y) = l2.first() {
                        g.push(y);
                        g.pop(y);
                    }
                    g.pop(x);
                }
                let _ = eng::moves(&mut g, true);
            }
            check_score(&g, &p, "played", ev)?;
            let g2 = import(&g.fen())?;
            check_score(&g2, &p, "re-imported", ev)?;
            check_score(&gm, &pm, "mirrored", ev)?;
            if g.score() as i32 != -(gm.score() as i32) {
                return Err(Fail::new(
                    "mirrored-position-score-not-negated",
                    format!("{} scores {} , its colour mirror {} (played with mirrored moves) scores {}", p.fen4(), g.score(), pm.fen4(), gm.score()),
                ));
            }
            let low = pst_abs_without_kings(&p) < 3000;
            if low {
                seen_endgame = true;
                ev.class("positions_below_endgame_threshold");
            }
            if low || (seen_endgame && king_move) {
                ev.nontrivial(fp_pos(&p), || json!({"position": p.fen4(), "score": g.score(), "sum_middle": pst(&p, false), "sum_end": pst(&p, true)}));
            }
            if m.promo != 0 {
                ev.class("promotions_scored");
            }
        }
        if seen_endgame && k < n {
            ev.class("walks_crossing_into_endgame_material");
        }
        Ok(())
    }

    fn enumerate(&self, ctx: &Ctx, ev: &mut Ev, report: &mut dyn FnMut(ScoreCase, Fail)) {
        for (i, _) in CURATED.iter().enumerate() {
            if !ctx.owns(i as u64) {
                continue;
            }
            let case = ScoreCase { walk: Walk { start: Start::Curated(i as u16), picks: vec![Pick { kind: PK_KING, idx: 0 }, Pick { kind: PK_KING, idx: 0 }] }, import_at: 0, noise: 2 };
            if let Err(f) = self.check(ctx, &case, ev) {
                report(case, f);
                return;
            }
        }
    }
}
