//! C03: take-back restores everything; queries change nothing.

use crate::eng::{self, Game, Move, Player, Snapshot};
use crate::ev::*;
use crate::gen::*;
use crate::runner::{Ctx, Prop};
use proptest::collection::vec;
use proptest::prelude::*;
use serde::{Deserialize, Serialize};
use serde_json::json;

#[derive(Serialize, Deserialize, Clone, Debug)]
pub struct RestoreCase {
    pub walk: Walk,
    /// the engine game is imported from text at this ply of the walk (mapped monotonically), the rest is
    /// played into the game record with push_history
    pub import_at: u16,
    /// picks for the nested play/take-back tree
    pub nest: Vec<u16>,
    pub depth: u8,
}

pub struct C03;

struct Nest<'a> {
    picks: &'a [u16],
    next: usize,
    pairs: u64,
    king_captures: u64,
    max_depth: u8,
}

impl<'a> Nest<'a> {
    fn pick(&mut self) -> u16 {
        let v = if self.picks.is_empty() { 0 } else { self.picks[self.next % self.picks.len()] };
        self.next += 1;
        v
    }
}

fn move_kind(m: &Move) -> &'static str {
    match m {
        Move::Normal { .. } => "normal",
        Move::Promotion { .. } => "promotion",
        Move::CastlingShort { .. } | Move::CastlingLong { .. } => "castling",
        Move::EnPassant { .. } => "en_passant",
    }
}

fn compare(before: &Snapshot, after: &Snapshot, what: &str, sig: &str) -> Result<(), Fail> {
    if before != after {
        return Err(Fail::new(sig, format!("{} at {} : {}", what, before.fen, before.diff(after))));
    }
    Ok(())
}

impl C03 {
    /// push/pop every listed move at this node; recurse on a picked subset
    fn node(&self, g: &mut Game, depth: u8, max: u8, all_moves: bool, nest: &mut Nest, ev: &mut Ev, endgame: bool) -> Result<(), Fail> {
        let before = eng::snapshot(g);
        // queries are pure
        let again = eng::snapshot(g);
        compare(&before, &again, "asking for the move lists / FEN / display text changed the game", "query-changes-state")?;
        ev.eval();
        let list = eng::moves(g, false);
        let k = list.len();
        // at the root every move; below it three picked moves, deeper two (bounded tree, like a
        // search with a narrow beam)
        let mut chosen_idx: Vec<usize> = Vec::new();
        if !all_moves && k > 0 {
            for _ in 0..(if depth <= 1 { 3 } else { 2 }) {
                chosen_idx.push((nest.pick() as usize * k) >> 16);
            }
            chosen_idx.sort();
            chosen_idx.dedup();
        }
        for (i, &m) in list.iter().enumerate() {
            if !all_moves && !chosen_idx.contains(&i) {
                continue;
            }
            let text = m.uci_notation();
            g.push(m);
            nest.pairs += 1;
            ev.eval();
            let kc = !g.king_exists(Player::White) || !g.king_exists(Player::Black);
            if kc {
                nest.king_captures += 1;
            }
            let mut sub = Ok(());
            if depth < max {
                nest.max_depth = nest.max_depth.max(depth + 1);
                sub = self.node(g, depth + 1, max, false, nest, ev, endgame);
            }
            g.pop(m);
            sub?;
            let after = eng::snapshot(g);
            let kind = move_kind(&m);
            let is_king_move = {
                let b = text.as_bytes();
                let (row, col) = ((b[1] - b'1') as i8, (b[0] - b'a') as i8);
                let k = if before.white_to_move { (before.kings.0, before.kings.1) } else { (before.kings.2, before.kings.3) };
                kind == "normal" && k == (row, col)
            };
            compare(&before, &after, &format!("push + pop of {} ({}) does not restore the game", text, kind), "take-back-does-not-restore")?;
            ev.class(match kind {
                "promotion" => "pairs_promotion",
                "castling" => "pairs_castling",
                "en_passant" => "pairs_en_passant",
                _ => {
                    if kc {
                        "pairs_king_capture"
                    } else if is_king_move {
                        "pairs_king_move"
                    } else {
                        "pairs_normal"
                    }
                }
            });
            if kind != "normal" || kc || is_king_move || endgame || depth >= 3 {
                let fp = mix(fp_bytes(before.fen.as_bytes()) ^ fp_bytes(text.as_bytes()));
                ev.nontrivial(fp, || json!({"position": before.fen, "move": text, "kind": kind, "captures_king": kc, "nesting_depth": depth, "endgame_material": endgame}));
            }
        }
        Ok(())
    }
}

impl Prop for C03 {
    type Case = RestoreCase;

    fn id(&self) -> &'static str {
        "C03"
    }

    fn rule(&self) -> String {
        "Cases: a generated walk; the engine game is imported from text at a generated ply and the remaining moves are played into the game record; at the final position every move of the unchecked list (a superset of the checked list) is played and taken back and a full snapshot (FEN, hash, score, king squares, length, side, record length, sorted checked and unchecked lists, display text) is compared; below that a picked nested play/take-back tree to depth 2-6 is walked like a search does, including positions after self-check moves where kings get captured; every node also checks that taking the snapshot twice changes nothing. evaluations = nodes snapshotted. Non-trivial (position, move) pair: castling, en passant, promotion, king move, king capture, position in endgame material (below the phase threshold), or nesting depth >= 3; distinct by position text and move.".into()
    }

    fn assumptions(&self) -> Vec<String> {
        vec![
            "the snapshot covers exactly the observables the property lists; private fields are observed only through them".into(),
            "start positions are sane; positions inside the nested tree need not be (they follow unchecked moves, as in the search)".into(),
        ]
    }

    fn cases(&self, tier: Tier) -> u32 {
        tier.pick(6_000, 120_000)
    }

    fn strategy(&self, _ctx: &Ctx) -> BoxedStrategy<RestoreCase> {
        (walk_strategy(true), any::<u16>(), vec(any::<u16>(), 1..40), 2u8..7)
            .prop_map(|(walk, import_at, nest, depth)| RestoreCase { walk, import_at, nest, depth })
            .boxed()
    }

    fn check(&self, _ctx: &Ctx, case: &RestoreCase, ev: &mut Ev) -> Result<(), Fail> {
        let Some(r) = resolve_walk(&case.walk) else {
            ev.skip("construction did not yield a sane position");
            return Ok(());
        };
        let n = r.moves.len();
        let k = (case.import_at as usize * (n + 1)) >> 16;
        let mut p = r.start.clone();
        for &m in &r.moves[..k] {
            p = p.make(m);
        }
        let fen = p.fen6();
        let mut g = match eng::guarded(|| Game::new(&fen)) {
            Ok(Ok(g)) => g,
            Ok(Err(e)) => return Err(Fail::new("sane-position-not-importable", format!("{} : {}", fen, e))),
            Err(pn) => return Err(Fail::new("panic", format!("importing {} : {}", fen, pn))),
        };
        for &m in &r.moves[k..] {
            let Some(em) = eng::find_legal(&mut g, &m.uci()) else {
                return Err(Fail::new("legal-move-not-offered", format!("{} in {}", m.uci(), g.fen())));
            };
            g.push_history(em);
            p = p.make(m);
        }
        if p.pseudo().len() > 250 {
            ev.skip("more than 250 pseudo-legal moves");
            return Ok(());
        }
        ev.class(if k == n { "root_imported_from_text" } else if k == 0 { "root_played_from_start" } else { "root_imported_then_played" });
        // endgame material: non-king piece-square sum below the engine's threshold region
        let material: i32 = crate::props::c16::pst_abs_without_kings(&p);
        let endgame = material < 3000;
        if endgame {
            ev.class("root_in_endgame_material");
        }
        let mut nest = Nest { picks: &case.nest, next: 0, pairs: 0, king_captures: 0, max_depth: 0 };
        let res = self.node(&mut g, 0, case.depth, true, &mut nest, ev, endgame);
        ev.class_n("push_pop_pairs", nest.pairs);
        ev.class_n("states_with_a_captured_king", nest.king_captures);
        ev.class(match nest.max_depth {
            0..=2 => "nest_depth_le_2",
            3..=4 => "nest_depth_3_4",
            _ => "nest_depth_5_6",
        });
        res
    }

    fn enumerate(&self, ctx: &Ctx, ev: &mut Ev, report: &mut dyn FnMut(RestoreCase, Fail)) {
        // every curated root, imported directly from text, full depth-2 tree
        for (i, _) in CURATED.iter().enumerate() {
            if !ctx.owns(i as u64) {
                continue;
            }
            let case = RestoreCase { walk: Walk { start: Start::Curated(i as u16), picks: vec![] }, import_at: 0, nest: vec![0], depth: 2 };
            if let Err(f) = self.check(ctx, &case, ev) {
                report(case, f);
                return;
            }
        }
    }
}
