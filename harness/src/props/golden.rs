//! Golden (FEN, hash) pairs pinning "the hash never varies between runs, builds or versions".
//! Created once with the independent key-file combiner (`vcheck mkgolden`) on the pinned tree and
//! checked against the combiner by the self-test, against the engine by C04.
pub const GOLDEN: &[(&str, &str)] = &[
    ("rnbqkbnr/pppppppp/8/8/8/8/PPPPPPPP/RNBQKBNR w KQkq - 0 1", "D9C54592621D7040"),
    ("r3k2r/Pppp1ppp/1b3nbN/nP6/BBP1P3/q4N2/Pp1P2PP/R2Q1RK1 w kq - 0 1", "EB1D2422384FE8BE"),
    ("4k3/8/8/8/8/8/4P3/4K3 w - - 0 1", "9DCC79B7AA5508D"),
    ("8/8/4k3/8/8/3K4/4P3/8 w - - 0 1", "E321D3238DB13E7B"),
    ("r3k2r/1b4bq/8/8/8/8/7B/R3K2R w KQkq - 0 1", "9B823EE5766B6E00"),
    ("r3k2r/p6p/8/2B5/2b5/8/P6P/R3K2R w KQkq - 0 1", "4D4E5683A35CF2F6"),
    ("8/8/1k6/2b5/2pP4/8/5K2/8 b - d3 0 1", "2618182D4508FB8E"),
    ("4k3/8/8/8/2pPp3/8/8/4K3 b - d3 0 1", "8AF06260CF932EDA"),
    ("8/PPPk4/8/8/8/8/4Kppp/8 w - - 0 1", "CF3C077B6EEC7F67"),
    ("4k3/1P6/8/8/8/8/K7/8 w - - 0 1", "68DE830F73BF2819"),
    ("4k3/8/8/8/1b6/8/3N4/4K3 w - - 0 1", "4FDCCC09F21B7B1D"),
    ("r1bqkb1r/pppp1Qpp/2n2n2/4p3/2B1P3/8/PPPP1PPP/RNB1K1NR b KQkq - 0 4", "7227257B6C49183"),
    ("8/8/8/8/8/1k6/p7/K7 b - - 0 1", "5B47193BAE223ADD"),
    ("8/8/8/8/8/k7/8/KBN5 w - - 0 1", "B4FFEFB77A3D083A"),
    ("2kr3r/ppp2ppp/2n1bn2/2b1p3/4P3/2NB1N2/PPP2PPP/R1B2RK1 w - - 0 10", "F350EA70E828F29E"),
    ("3q4/1P1P4/8/8/8/8/k1p1p3/3QK3 w - - 0 1", "85431BC75D5E9DCF"),
];
