//! Shared generators: sane start positions (curated, constructed, exhaustive small endgames) and
//! walks (move picks resolved against the reference model's legal list).
#![allow(dead_code)]

use crate::refchess::*;
use proptest::collection::vec;
use proptest::prelude::*;
use serde::{Deserialize, Serialize};

/// Curated roots. Every literal is validated (strict reader + `sane`) by `selftest` and again when a
/// check starts; an insane literal is a harness error (exit 2), never a finding.
pub const CURATED: &[&str] = &[
    // 0-5: the CPW perft suite
    START_FEN,
    "r3k2r/p1ppqpb1/bn2pnp1/3PN3/1p2P3/2N2Q1p/PPPBBPPP/R3K2R w KQkq - 0 1",
    "8/2p5/3p4/KP5r/1R3p1k/8/4P1P1/8 w - - 0 1",
    "r3k2r/Pppp1ppp/1b3nbN/nP6/BBP1P3/q4N2/Pp1P2PP/R2Q1RK1 w kq - 0 1",
    "rnbq1k1r/pp1Pbppp/2p5/8/2B5/8/PPP1NnPP/RNBQK2R w KQ - 1 8",
    "r4rk1/1pp1qppp/p1np1n2/2b1p1B1/2B1P1b1/P1NP1N2/1PP1QPPP/R4RK1 w - - 0 10",
    // 6-9: small endgames (score phase switch, mates, stalemates)
    "4k3/8/8/8/8/8/4P3/4K3 w - - 0 1",
    "8/5k2/8/8/8/2Q5/2K5/8 w - - 0 1",
    "6k1/5ppp/8/8/8/8/r4PPP/1R4K1 w - - 0 1",
    "8/8/4k3/8/8/3K4/4P3/8 w - - 0 1",
    // 10-15: castling with attacked / occupied squares and rook captures on home squares
    "r3k2r/8/8/8/8/8/8/R3K2R w KQkq - 0 1",
    "4k2r/8/8/8/8/8/8/R3K2R w KQk - 0 1",
    "r3k2r/1b4bq/8/8/8/8/7B/R3K2R w KQkq - 0 1",
    "5k2/8/8/8/8/8/8/4K2R w K - 0 1",
    "r3k2r/8/8/8/8/8/6p1/R3K2R b KQkq - 0 1",
    "r3k2r/p6p/8/2B5/2b5/8/P6P/R3K2R w KQkq - 0 1",
    // 16-22: en passant: pins along the rank and the diagonal, discovered checks, both colours
    "8/8/8/8/k2Pp2Q/8/8/3K4 b - d3 0 1",
    "8/8/3k4/8/2pP4/8/B7/4K3 b - d3 0 1",
    "8/8/1k6/2b5/2pP4/8/5K2/8 b - d3 0 1",
    "8/8/8/K1Pp3r/8/8/8/4k3 w - d6 0 1",
    "4k3/8/8/2PpP3/8/8/8/4K3 w - d6 0 1",
    "4k3/8/8/8/2pPp3/8/8/4K3 b - d3 0 1",
    "rnbqkbnr/ppp1pppp/8/2Pp4/8/8/PP1PPPPP/RNBQKBNR w KQkq d6 0 3",
    // 23-28: promotions, under-promotions, promotion captures into corners with castling rights
    "n1n5/PPPk4/8/8/8/8/4Kppp/5N1N b - - 0 1",
    "8/PPPk4/8/8/8/8/4Kppp/8 w - - 0 1",
    "r3k2r/1P4P1/8/8/8/8/1p4p1/R3K2R w KQkq - 0 1",
    "r3k2r/1P4P1/8/8/8/8/1p4p1/R3K2R b KQkq - 0 1",
    "4k3/1P6/8/8/8/8/K7/8 w - - 0 1",
    "8/8/8/8/8/4k3/4p3/4K3 w - - 0 1",
    // 29-33: checks, double checks, pins
    "2r5/3pk3/8/2P5/8/2K5/8/8 w - - 0 1",
    "4k3/8/8/8/1b6/8/3N4/4K3 w - - 0 1",
    "4k3/4r3/8/8/8/8/4B3/4K3 w - - 0 1",
    "rnb1kbnr/pppp1ppp/8/4p3/6Pq/5P2/PPPPP2P/RNBQKBNR w KQkq - 1 3",
    "r1bqkb1r/pppp1Qpp/2n2n2/4p3/2B1P3/8/PPPP1PPP/RNB1K1NR b KQkq - 0 4",
    // 34-39: cages and blocked structures (long unlimited searches), bare kings
    "8/8/4k3/8/8/3K4/8/8 w - - 0 1",
    "kb6/p1p5/P1P5/8/8/8/8/K7 w - - 0 1",
    "8/8/8/8/8/1k6/p7/K7 b - - 0 1",
    "8/8/8/p1p1p1p1/P1P1P1P1/8/4k3/K7 w - - 0 1",
    "7k/8/8/8/8/8/8/KB6 w - - 0 1",
    "8/8/8/8/8/k7/8/KBN5 w - - 0 1",
    // 40-45: middlegames rich in captures
    "r1bq1rk1/pp2bppp/2n1pn2/2pp4/3P1B2/2PBPN2/PP1N1PPP/R2QK2R w KQ - 0 8",
    "r2q1rk1/ppp2ppp/2n1bn2/2bpp3/4P3/1BNP1N2/PPP2PPP/R1BQ1RK1 w - - 0 8",
    "2kr3r/ppp2ppp/2n1bn2/2b1p3/4P3/2NB1N2/PPP2PPP/R1B2RK1 w - - 0 10",
    "r3r1k1/pp3ppp/2p5/3n4/3P4/2P2N2/P4PPP/R3R1K1 b - - 0 20",
    "8/pp3pk1/2p3p1/8/3P4/2P3P1/P4PK1/8 w - - 0 30",
    "3q4/1P1P4/8/8/8/8/k1p1p3/3QK3 w - - 0 1",
];

pub fn curated_positions() -> Result<Vec<Pos>, String> {
    let mut v = Vec::new();
    for f in CURATED {
        let p = Pos::from_fen(f).map_err(|e| format!("curated literal unreadable: {} ({})", f, e))?;
        if !p.sane() {
            return Err(format!("curated literal not sane: {}", f));
        }
        v.push(p);
    }
    Ok(v)
}

// ---------------------------------------------------------------------------------------------
// Constructed random positions

const MEN: &[u8] = b"PPPPNBRQpppppnbrqPpRrQq";

#[derive(Serialize, Deserialize, Clone, Debug, PartialEq)]
pub struct Construct {
    /// bit0 white king on e1, bit1 rook h1, bit2 rook a1, bit3 black king on e8, bit4 rook h8, bit5 rook a8
    pub home: u8,
    pub wk: u8,
    pub bk: u8,
    /// (index into the piece table, square)
    pub men: Vec<(u8, u8)>,
    pub white: bool,
    /// which of the rights the board allows are granted (bits K Q k q)
    pub cr: u8,
    /// 0-7: none; 8-15: file, FIDE style (no capturer required); 16-23: file with an adjacent capturer
    pub ep: u8,
}

impl Construct {
    /// Build the position; None when no sane position results (counted as a rejected construction).
    pub fn build(&self) -> Option<Pos> {
        let mut b = [b'.'; 64];
        if self.home & 1 != 0 {
            b[4] = b'K';
            if self.home & 2 != 0 {
                b[7] = b'R';
            }
            if self.home & 4 != 0 {
                b[0] = b'R';
            }
        } else {
            b[(self.wk % 64) as usize] = b'K';
        }
        if self.home & 8 != 0 && b[60] == b'.' {
            b[60] = b'k';
            if self.home & 16 != 0 && b[63] == b'.' {
                b[63] = b'r';
            }
            if self.home & 32 != 0 && b[56] == b'.' {
                b[56] = b'r';
            }
        } else {
            let mut s = (self.bk % 64) as usize;
            let mut tries = 0;
            while b[s] != b'.' && tries < 64 {
                s = (s + 1) % 64;
                tries += 1;
            }
            b[s] = b'k';
        }
        // material feasibility: at most 16 men a side, at most 8 pawns, promoted pieces only in
        // place of missing pawns (keeps the position within what a real game can contain)
        let mut count = [[0u32; 6]; 2]; // p n b r q total
        let idx = |c: u8| match c.to_ascii_lowercase() {
            b'p' => 0,
            b'n' => 1,
            b'b' => 2,
            b'r' => 3,
            b'q' => 4,
            _ => 5,
        };
        for s in 0..64 {
            if b[s] != b'.' && idx(b[s]) < 5 {
                let side = if is_white(b[s]) { 0 } else { 1 };
                count[side][idx(b[s])] += 1;
            }
        }
        for &(pi, sqr) in &self.men {
            let c = MEN[pi as usize % MEN.len()];
            let s = (sqr % 64) as usize;
            if b[s] != b'.' {
                continue;
            }
            if c.to_ascii_lowercase() == b'p' && (s / 8 == 0 || s / 8 == 7) {
                continue;
            }
            let side = if is_white(c) { 0 } else { 1 };
            let mut cnt = count[side];
            cnt[idx(c)] += 1;
            let extra = cnt[1].saturating_sub(2) + cnt[2].saturating_sub(2) + cnt[3].saturating_sub(2) + cnt[4].saturating_sub(1);
            let total: u32 = cnt[..5].iter().sum();
            if cnt[0] > 8 || extra + cnt[0] > 8 || total > 15 {
                continue;
            }
            count[side] = cnt;
            b[s] = c;
        }
        let white = self.white;
        // en passant: create a just double-pushed pawn of the side not to move
        let mut ep = None;
        if self.ep >= 8 {
            let f = (self.ep % 8) as usize;
            let (pr, p, b1, b2) = if white { (4usize, b'p', 5usize, 6usize) } else { (3, b'P', 2, 1) };
            let is_king = |c: u8| c.to_ascii_lowercase() == b'k';
            if !is_king(b[pr * 8 + f]) && !is_king(b[b1 * 8 + f]) && !is_king(b[b2 * 8 + f]) {
                b[pr * 8 + f] = p;
                b[b1 * 8 + f] = b'.';
                b[b2 * 8 + f] = b'.';
                ep = Some(f as u8);
                if self.ep >= 16 {
                    let af = if f == 0 {
                        1
                    } else if f == 7 {
                        6
                    } else if self.cr & 16 != 0 {
                        f - 1
                    } else {
                        f + 1
                    };
                    let me = if white { b'P' } else { b'p' };
                    if !is_king(b[pr * 8 + af]) {
                        b[pr * 8 + af] = me;
                    }
                }
            }
        }
        let mut cr = [false; 4];
        if b[4] == b'K' && b[7] == b'R' && self.cr & 1 != 0 {
            cr[0] = true;
        }
        if b[4] == b'K' && b[0] == b'R' && self.cr & 2 != 0 {
            cr[1] = true;
        }
        if b[60] == b'k' && b[63] == b'r' && self.cr & 4 != 0 {
            cr[2] = true;
        }
        if b[60] == b'k' && b[56] == b'r' && self.cr & 8 != 0 {
            cr[3] = true;
        }
        let mut p = Pos { b, white, cr, ep };
        if p.sane() {
            return Some(p);
        }
        // one repair attempt: if only the side not to move is in check, hand the move over
        if p.ep.is_none() {
            p.white = !p.white;
            if p.sane() {
                return Some(p);
            }
        }
        None
    }
}

pub fn construct_strategy() -> impl Strategy<Value = Construct> {
    let men = prop_oneof![
        2 => vec((any::<u8>(), 0u8..64), 0..4),
        3 => vec((any::<u8>(), 0u8..64), 0..12),
        4 => vec((any::<u8>(), 0u8..64), 8..40),
    ];
    (0u8..64, 0u8..64, 0u8..64, men, any::<bool>(), 0u8..32, prop_oneof![3 => 0u8..8, 1 => 8u8..16, 2 => 16u8..24]).prop_map(
        |(home, wk, bk, men, white, cr, ep)| Construct { home, wk, bk, men, white, cr, ep },
    )
}

// ---------------------------------------------------------------------------------------------
// Start positions and walks

#[derive(Serialize, Deserialize, Clone, Debug, PartialEq)]
pub enum Start {
    Curated(u16),
    Built(Construct),
    Fen(String),
}

impl Start {
    pub fn pos(&self) -> Option<Pos> {
        match self {
            Start::Curated(i) => Pos::from_fen(CURATED[*i as usize % CURATED.len()]).ok(),
            Start::Built(c) => c.build(),
            Start::Fen(f) => Pos::from_fen(f).ok().filter(|p| p.sane()),
        }
    }
}

/// curated roots with (nearly) full material: the start, the CPW middlegames, castling and capture-rich positions
pub const MIDDLEGAMES: &[u16] = &[0, 0, 1, 3, 4, 5, 22, 32, 33, 40, 41, 42, 43];

pub fn start_strategy() -> BoxedStrategy<Start> {
    prop_oneof![
        4 => (0u16..CURATED.len() as u16).prop_map(Start::Curated),
        4 => proptest::sample::select(MIDDLEGAMES).prop_map(Start::Curated),
        4 => construct_strategy().prop_map(Start::Built),
    ]
    .boxed()
}

pub const PK_ANY: u8 = 0;
pub const PK_CAPTURE: u8 = 1;
pub const PK_PROMO: u8 = 2;
pub const PK_CASTLE: u8 = 3;
pub const PK_EP: u8 = 4;
pub const PK_KING: u8 = 5;
pub const PK_ROOK_HOME: u8 = 6;
pub const PK_DOUBLE: u8 = 7;
pub const PK_CHECK: u8 = 8;
/// take back the mover's previous move (knight round trips etc.): reaches earlier placements by a new route
pub const PK_UNDO: u8 = 9;

#[derive(Serialize, Deserialize, Clone, Copy, Debug, PartialEq)]
pub struct Pick {
    /// preferred move kind (PK_*); falls back to "any" when the position has none of that kind
    pub kind: u8,
    /// index into the candidate list, mapped monotonically (idx * len >> 16)
    pub idx: u16,
}

pub fn pick_strategy() -> impl Strategy<Value = Pick> {
    let kind = prop_oneof![
        10 => Just(PK_ANY),
        3 => Just(PK_CAPTURE),
        2 => Just(PK_PROMO),
        2 => Just(PK_CASTLE),
        3 => Just(PK_EP),
        1 => Just(PK_KING),
        1 => Just(PK_ROOK_HOME),
        2 => Just(PK_DOUBLE),
        1 => Just(PK_CHECK),
        2 => Just(PK_UNDO),
    ];
    (kind, any::<u16>()).prop_map(|(kind, idx)| Pick { kind, idx })
}

pub fn matches_kind(p: &Pos, m: RMove, kind: u8) -> bool {
    const HOMES: [u8; 4] = [0, 7, 56, 63];
    match kind {
        PK_CAPTURE => p.is_capture(m),
        PK_PROMO => m.promo != 0,
        PK_CASTLE => m.kind == K_OO || m.kind == K_OOO,
        PK_EP => m.kind == K_EP,
        PK_KING => p.b[m.from as usize].to_ascii_lowercase() == b'k',
        PK_ROOK_HOME => {
            (HOMES.contains(&m.from) && p.b[m.from as usize].to_ascii_lowercase() == b'r')
                || (HOMES.contains(&m.to) && p.b[m.to as usize].to_ascii_lowercase() == b'r')
        }
        PK_DOUBLE => m.kind == K_DOUBLE,
        PK_CHECK => {
            let q = p.make(m);
            q.in_check(q.white)
        }
        _ => true,
    }
}

pub fn resolve_pick(p: &Pos, legal: &[RMove], pick: Pick, hist: &[RMove]) -> Option<RMove> {
    if legal.is_empty() {
        return None;
    }
    let ix = |n: usize| (pick.idx as usize * n) >> 16;
    if pick.kind == PK_UNDO {
        if hist.len() >= 2 {
            let prev = hist[hist.len() - 2];
            if let Some(&m) = legal.iter().find(|m| m.from == prev.to && m.to == prev.from && m.promo == 0) {
                return Some(m);
            }
        }
    } else if pick.kind != PK_ANY {
        let c: Vec<RMove> = legal.iter().copied().filter(|&m| matches_kind(p, m, pick.kind)).collect();
        if !c.is_empty() {
            return Some(c[ix(c.len())]);
        }
    }
    Some(legal[ix(legal.len())])
}

#[derive(Serialize, Deserialize, Clone, Debug, PartialEq)]
pub struct Walk {
    pub start: Start,
    pub picks: Vec<Pick>,
}

pub fn walk_strategy(long_games: bool) -> BoxedStrategy<Walk> {
    let picks = if long_games {
        prop_oneof![
            6 => vec(pick_strategy(), 0..40),
            3 => vec(pick_strategy(), 40..160),
            2 => vec(pick_strategy(), 160..398),
        ]
        .boxed()
    } else {
        prop_oneof![
            8 => vec(pick_strategy(), 0..40),
            2 => vec(pick_strategy(), 40..120),
        ]
        .boxed()
    };
    (start_strategy(), picks).prop_map(|(start, picks)| Walk { start, picks }).boxed()
}

/// The moves of a walk resolved by the model: (move, position before it). Ends early at a dead position.
pub struct Resolved {
    pub start: Pos,
    pub moves: Vec<RMove>,
    pub end: Pos,
}

pub fn resolve_walk(w: &Walk) -> Option<Resolved> {
    let start = w.start.pos()?;
    let mut p = start.clone();
    let mut moves = Vec::with_capacity(w.picks.len());
    for &pick in &w.picks {
        let legal = p.legal();
        let Some(m) = resolve_pick(&p, &legal, pick, &moves) else { break };
        moves.push(m);
        p = p.make(m);
    }
    Some(Resolved { start, moves, end: p })
}

pub fn moves_text(moves: &[RMove]) -> String {
    moves.iter().map(|m| m.uci()).collect::<Vec<_>>().join(" ")
}

/// splitmix64, used only to derive per-shard proptest seeds and case fingerprints
pub fn mix(mut x: u64) -> u64 {
    x = x.wrapping_add(0x9E3779B97F4A7C15);
    x = (x ^ (x >> 30)).wrapping_mul(0xBF58476D1CE4E5B9);
    x = (x ^ (x >> 27)).wrapping_mul(0x94D049BB133111EB);
    x ^ (x >> 31)
}

pub fn fp_bytes(bytes: &[u8]) -> u64 {
    let mut h = 0xcbf29ce484222325u64;
    for &b in bytes {
        h ^= b as u64;
        h = h.wrapping_mul(0x100000001b3);
    }
    mix(h)
}

pub fn fp_pos(p: &Pos) -> u64 {
    let mut v = Vec::with_capacity(72);
    v.extend_from_slice(&p.b);
    v.push(p.white as u8);
    for i in 0..4 {
        v.push(p.cr[i] as u8);
    }
    v.push(p.ep.map(|f| f + 1).unwrap_or(0));
    fp_bytes(&v)
}

/// Depth-limited searches of boards with many queens and rooks are extremely slow (the capture search
/// explodes), which would turn fixed-work tiers into time-outs. Search-driving checks keep to boards with
/// at most the six heavy pieces a real game starts with; C07's latency cases and C15 cover the others.
pub fn search_friendly(p: &Pos) -> bool {
    p.b.iter().filter(|c| b"QRqr".contains(c)).count() <= 6 && p.pseudo().len() <= 250
}
pub const SKIP_HEAVY: &str = "more than 6 heavy pieces or 250 pseudo-legal moves (searches too slow for a fixed-work tier; see DESIGN 8.4)";

/// Four-ply cycles a, b, a-back, b-back of quiet non-pawn moves that return to `p`
pub fn shuffle_cycles(p: &Pos) -> Vec<[RMove; 4]> {
    let quiet = |q: &Pos| -> Vec<RMove> { q.legal().into_iter().filter(|&m| !q.is_capture(m) && m.kind == K_NORMAL && m.promo == 0 && q.b[m.from as usize].to_ascii_lowercase() != b'p').collect() };
    let mut out = Vec::new();
    for a in quiet(p) {
        let p1 = p.make(a);
        for b in quiet(&p1) {
            let p2 = p1.make(b);
            let (ba, bb) = (RMove { from: a.to, to: a.from, promo: 0, kind: K_NORMAL }, RMove { from: b.to, to: b.from, promo: 0, kind: K_NORMAL });
            if !p2.legal().contains(&ba) {
                continue;
            }
            let p3 = p2.make(ba);
            if p3.legal().contains(&bb) && p3.make(bb) == *p {
                out.push([a, b, ba, bb]);
                if out.len() >= 24 {
                    return out;
                }
            }
        }
    }
    out
}


/// A forced four-ply cycle from `p` plus its first move again: a, b (only reply), a2, b2 (only reply) lead back to
/// `p`; after a b a2 b2 a the side to move has exactly one legal move, which is also its move of four plies ago -
/// the move the engine's root repetition filter removes.
pub fn forced_cycle(p: &Pos) -> Option<[RMove; 5]> {
    for a in p.legal() {
        let q1 = p.make(a);
        let l1 = q1.legal();
        if l1.len() != 1 {
            continue;
        }
        let q2 = q1.make(l1[0]);
        for a2 in q2.legal() {
            let q3 = q2.make(a2);
            let l3 = q3.legal();
            if l3.len() != 1 {
                continue;
            }
            if q3.make(l3[0]) == *p {
                return Some([a, l1[0], a2, l3[0], a]);
            }
        }
    }
    None
}
