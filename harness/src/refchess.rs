//! Independent reference model of chess: copy-make, byte mailbox, attack test by ray walking,
//! legality by make / test. Written from the FIDE laws, without consulting the engine's generator.
//! Trusted base of every differential oracle; `selftest` pins it to the published perft totals.
#![allow(dead_code)]

use serde::{Deserialize, Serialize};

#[derive(Clone, PartialEq, Eq, Debug, Hash)]
pub struct Pos {
    /// b'.' empty, upper case = White, lower case = Black; index = rank*8+file (a1 = 0)
    pub b: [u8; 64],
    pub white: bool,
    /// K Q k q
    pub cr: [bool; 4],
    /// en-passant file
    pub ep: Option<u8>,
}

pub const K_NORMAL: u8 = 0;
pub const K_DOUBLE: u8 = 1;
pub const K_EP: u8 = 2;
pub const K_OO: u8 = 3;
pub const K_OOO: u8 = 4;

#[derive(Clone, Copy, PartialEq, Eq, Debug, Hash, Serialize, Deserialize)]
pub struct RMove {
    pub from: u8,
    pub to: u8,
    /// 0 or b'q' / b'r' / b'b' / b'n'
    pub promo: u8,
    /// K_NORMAL, K_DOUBLE, K_EP, K_OO, K_OOO
    pub kind: u8,
}

pub fn is_white(p: u8) -> bool {
    p.is_ascii_uppercase()
}
pub fn rf(sq: u8) -> (i32, i32) {
    ((sq / 8) as i32, (sq % 8) as i32)
}
pub fn sq(r: i32, f: i32) -> Option<u8> {
    if (0..8).contains(&r) && (0..8).contains(&f) {
        Some((r * 8 + f) as u8)
    } else {
        None
    }
}
pub fn sq_name(q: u8) -> String {
    let mut s = String::new();
    s.push((b'a' + q % 8) as char);
    s.push((b'1' + q / 8) as char);
    s
}

const KN: [(i32, i32); 8] = [(1, 2), (2, 1), (-1, 2), (-2, 1), (1, -2), (2, -1), (-1, -2), (-2, -1)];
const KI: [(i32, i32); 8] = [(1, 0), (-1, 0), (0, 1), (0, -1), (1, 1), (1, -1), (-1, 1), (-1, -1)];
const RO: [(i32, i32); 4] = [(1, 0), (-1, 0), (0, 1), (0, -1)];
const BI: [(i32, i32); 4] = [(1, 1), (1, -1), (-1, 1), (-1, -1)];

impl RMove {
    pub fn uci(&self) -> String {
        let mut s = String::new();
        for q in [self.from, self.to] {
            s.push((b'a' + q % 8) as char);
            s.push((b'1' + q / 8) as char);
        }
        if self.promo != 0 {
            s.push(self.promo as char);
        }
        s
    }
}

pub const START_FEN: &str = "rnbqkbnr/pppppppp/8/8/8/8/PPPPPPPP/RNBQKBNR w KQkq - 0 1";

impl Pos {
    pub fn start() -> Pos {
        Pos::from_fen(START_FEN).unwrap()
    }

    /// Strict FEN reader `R`: 4 to 6 fields, eight ranks of exactly eight squares, digits 1-8 never
    /// adjacent, side `w`/`b`, castling `-` or a non-empty ordered subset of KQkq, en passant `-` or a
    /// square on the rank implied by the side to move, counters well-formed when present.
    pub fn from_fen(fen: &str) -> Result<Pos, String> {
        let f: Vec<&str> = fen.split_ascii_whitespace().collect();
        if f.len() < 4 || f.len() > 6 {
            return Err("field count".into());
        }
        let ranks: Vec<&str> = f[0].split('/').collect();
        if ranks.len() != 8 {
            return Err("rank count".into());
        }
        let mut b = [b'.'; 64];
        for (i, r) in ranks.iter().enumerate() {
            let rank = 7 - i as i32;
            let mut file = 0i32;
            let mut last_digit = false;
            for c in r.bytes() {
                if (b'1'..=b'8').contains(&c) {
                    if last_digit {
                        return Err("adjacent digits".into());
                    }
                    file += (c - b'0') as i32;
                    last_digit = true;
                } else if b"PNBRQKpnbrqk".contains(&c) {
                    if file > 7 {
                        return Err("rank too long".into());
                    }
                    b[(rank * 8 + file) as usize] = c;
                    file += 1;
                    last_digit = false;
                } else {
                    return Err("bad char".into());
                }
                if file > 8 {
                    return Err("rank too long".into());
                }
            }
            if file != 8 {
                return Err("rank width".into());
            }
        }
        let white = match f[1] {
            "w" => true,
            "b" => false,
            _ => return Err("side".into()),
        };
        let mut cr = [false; 4];
        if f[2] != "-" {
            if f[2].is_empty() {
                return Err("castling".into());
            }
            let mut lasti = -1i32;
            for c in f[2].bytes() {
                let i = match c {
                    b'K' => 0,
                    b'Q' => 1,
                    b'k' => 2,
                    b'q' => 3,
                    _ => return Err("castling".into()),
                };
                if i as i32 <= lasti {
                    return Err("castling order".into());
                }
                lasti = i as i32;
                cr[i] = true;
            }
        }
        let ep = if f[3] == "-" {
            None
        } else {
            let e = f[3].as_bytes();
            if e.len() != 2 || !(b'a'..=b'h').contains(&e[0]) {
                return Err("ep".into());
            }
            let want = if white { b'6' } else { b'3' };
            if e[1] != want {
                return Err("ep rank".into());
            }
            Some(e[0] - b'a')
        };
        if f.len() >= 5 && !(f[4].bytes().all(|c| c.is_ascii_digit()) && f[4].parse::<u32>().is_ok()) {
            return Err("halfmove".into());
        }
        if f.len() >= 6
            && !(f[5].bytes().all(|c| c.is_ascii_digit()) && f[5].parse::<u32>().map(|x| x >= 1).unwrap_or(false))
        {
            return Err("fullmove".into());
        }
        Ok(Pos { b, white, cr, ep })
    }

    pub fn placement(&self) -> String {
        let mut s = String::new();
        for r in (0..8).rev() {
            let mut e = 0;
            for f in 0..8 {
                let c = self.b[r * 8 + f];
                if c == b'.' {
                    e += 1;
                } else {
                    if e > 0 {
                        s.push_str(&e.to_string());
                        e = 0;
                    }
                    s.push(c as char);
                }
            }
            if e > 0 {
                s.push_str(&e.to_string());
            }
            if r > 0 {
                s.push('/');
            }
        }
        s
    }

    pub fn rights_str(&self) -> String {
        let mut s = String::new();
        for (i, c) in "KQkq".chars().enumerate() {
            if self.cr[i] {
                s.push(c);
            }
        }
        if s.is_empty() {
            s.push('-');
        }
        s
    }

    pub fn ep_str(&self) -> String {
        match self.ep {
            None => "-".to_string(),
            Some(f) => format!("{}{}", (b'a' + f) as char, if self.white { '6' } else { '3' }),
        }
    }

    /// The four position fields of a FEN
    pub fn fen4(&self) -> String {
        format!("{} {} {} {}", self.placement(), if self.white { 'w' } else { 'b' }, self.rights_str(), self.ep_str())
    }

    pub fn fen6(&self) -> String {
        format!("{} 0 1", self.fen4())
    }

    pub fn king_sq(&self, white: bool) -> Option<u8> {
        let k = if white { b'K' } else { b'k' };
        self.b.iter().position(|&c| c == k).map(|x| x as u8)
    }

    /// Is square `s` attacked by the side `by_white`
    pub fn attacked(&self, s: u8, by_white: bool) -> bool {
        let (r, f) = rf(s);
        let pc = |c: u8| if by_white { c.to_ascii_uppercase() } else { c.to_ascii_lowercase() };
        // a white pawn on (r-1, f±1) attacks (r, f)
        let pr = if by_white { r - 1 } else { r + 1 };
        for df in [-1, 1] {
            if let Some(q) = sq(pr, f + df) {
                if self.b[q as usize] == pc(b'p') {
                    return true;
                }
            }
        }
        for (dr, df) in KN {
            if let Some(q) = sq(r + dr, f + df) {
                if self.b[q as usize] == pc(b'n') {
                    return true;
                }
            }
        }
        for (dr, df) in KI {
            if let Some(q) = sq(r + dr, f + df) {
                if self.b[q as usize] == pc(b'k') {
                    return true;
                }
            }
        }
        for (dirs, a) in [(RO, b'r'), (BI, b'b')] {
            for (dr, df) in dirs {
                let (mut rr, mut ff) = (r + dr, f + df);
                while let Some(q) = sq(rr, ff) {
                    let c = self.b[q as usize];
                    if c != b'.' {
                        if c == pc(a) || c == pc(b'q') {
                            return true;
                        }
                        break;
                    }
                    rr += dr;
                    ff += df;
                }
            }
        }
        false
    }

    pub fn in_check(&self, white: bool) -> bool {
        match self.king_sq(white) {
            Some(k) => self.attacked(k, !white),
            None => false,
        }
    }

    /// Number of enemy pieces giving check to the side `white`
    pub fn checkers(&self, white: bool) -> u32 {
        let Some(k) = self.king_sq(white) else { return 0 };
        let mut n = 0;
        for s in 0..64u8 {
            let c = self.b[s as usize];
            if c == b'.' || is_white(c) == white {
                continue;
            }
            // does the piece on s attack k? test by removing every other attacker candidate:
            let mut solo = Pos { b: [b'.'; 64], white: self.white, cr: [false; 4], ep: None };
            // blockers matter: keep all pieces but turn other enemy pieces into blockers of our own colour
            for t in 0..64usize {
                let d = self.b[t];
                if d == b'.' {
                    continue;
                }
                if t as u8 == s {
                    solo.b[t] = d;
                } else if t as u8 == k {
                    solo.b[t] = d;
                } else {
                    // neutral blocker: a pawn of the checked side placed there never attacks its own king
                    solo.b[t] = if white { b'P' } else { b'p' };
                }
            }
            if solo.attacked(k, !white) {
                n += 1;
            }
        }
        n
    }

    /// Pseudo-legal moves: geometrically valid piece moves (castling fully checked), before the
    /// own-king test.
    pub fn pseudo(&self) -> Vec<RMove> {
        let mut v = Vec::with_capacity(64);
        let w = self.white;
        for s in 0..64u8 {
            let c = self.b[s as usize];
            if c == b'.' || is_white(c) != w {
                continue;
            }
            let (r, f) = rf(s);
            let own = |q: u8| {
                let t = self.b[q as usize];
                t != b'.' && is_white(t) == w
            };
            let enemy = |q: u8| {
                let t = self.b[q as usize];
                t != b'.' && is_white(t) != w
            };
            match c.to_ascii_lowercase() {
                b'p' => {
                    let dir = if w { 1 } else { -1 };
                    let start = if w { 1 } else { 6 };
                    let last = if w { 7 } else { 0 };
                    let add = |to: u8, kind: u8, v: &mut Vec<RMove>| {
                        if (to / 8) as i32 == last {
                            for p in [b'q', b'r', b'b', b'n'] {
                                v.push(RMove { from: s, to, promo: p, kind });
                            }
                        } else {
                            v.push(RMove { from: s, to, promo: 0, kind });
                        }
                    };
                    if let Some(t) = sq(r + dir, f) {
                        if self.b[t as usize] == b'.' {
                            add(t, K_NORMAL, &mut v);
                            if r == start {
                                if let Some(t2) = sq(r + 2 * dir, f) {
                                    if self.b[t2 as usize] == b'.' {
                                        v.push(RMove { from: s, to: t2, promo: 0, kind: K_DOUBLE });
                                    }
                                }
                            }
                        }
                    }
                    for df in [-1, 1] {
                        if let Some(t) = sq(r + dir, f + df) {
                            if enemy(t) {
                                add(t, K_NORMAL, &mut v);
                            } else if self.b[t as usize] == b'.' {
                                if let Some(ef) = self.ep {
                                    let eprank = if w { 5 } else { 2 };
                                    let victim = if w { b'p' } else { b'P' };
                                    if ef as i32 == f + df
                                        && r + dir == eprank
                                        && self.b[(r * 8 + f + df) as usize] == victim
                                    {
                                        v.push(RMove { from: s, to: t, promo: 0, kind: K_EP });
                                    }
                                }
                            }
                        }
                    }
                }
                b'n' => {
                    for (dr, df) in KN {
                        if let Some(t) = sq(r + dr, f + df) {
                            if !own(t) {
                                v.push(RMove { from: s, to: t, promo: 0, kind: K_NORMAL });
                            }
                        }
                    }
                }
                b'k' => {
                    for (dr, df) in KI {
                        if let Some(t) = sq(r + dr, f + df) {
                            if !own(t) {
                                v.push(RMove { from: s, to: t, promo: 0, kind: K_NORMAL });
                            }
                        }
                    }
                    let home = if w { 4u8 } else { 60u8 };
                    let rook = if w { b'R' } else { b'r' };
                    if s == home && !self.attacked(home, !w) {
                        let (ks, qs) = if w { (self.cr[0], self.cr[1]) } else { (self.cr[2], self.cr[3]) };
                        if ks
                            && self.b[(home + 3) as usize] == rook
                            && self.b[(home + 1) as usize] == b'.'
                            && self.b[(home + 2) as usize] == b'.'
                            && !self.attacked(home + 1, !w)
                            && !self.attacked(home + 2, !w)
                        {
                            v.push(RMove { from: s, to: home + 2, promo: 0, kind: K_OO });
                        }
                        if qs
                            && self.b[(home - 4) as usize] == rook
                            && self.b[(home - 1) as usize] == b'.'
                            && self.b[(home - 2) as usize] == b'.'
                            && self.b[(home - 3) as usize] == b'.'
                            && !self.attacked(home - 1, !w)
                            && !self.attacked(home - 2, !w)
                        {
                            v.push(RMove { from: s, to: home - 2, promo: 0, kind: K_OOO });
                        }
                    }
                }
                pc => {
                    let dirs: &[(i32, i32)] = match pc {
                        b'r' => &RO,
                        b'b' => &BI,
                        _ => &KI,
                    };
                    for &(dr, df) in dirs {
                        let (mut rr, mut ff) = (r + dr, f + df);
                        while let Some(t) = sq(rr, ff) {
                            if own(t) {
                                break;
                            }
                            v.push(RMove { from: s, to: t, promo: 0, kind: K_NORMAL });
                            if enemy(t) {
                                break;
                            }
                            rr += dr;
                            ff += df;
                        }
                    }
                }
            }
        }
        v
    }

    pub fn make(&self, m: RMove) -> Pos {
        let mut p = self.clone();
        let w = self.white;
        let piece = p.b[m.from as usize];
        p.b[m.from as usize] = b'.';
        match m.kind {
            K_EP => {
                let cap = (m.from / 8) * 8 + m.to % 8;
                p.b[cap as usize] = b'.';
                p.b[m.to as usize] = piece;
            }
            K_OO => {
                p.b[m.to as usize] = piece;
                let r = p.b[(m.from + 3) as usize];
                p.b[(m.from + 3) as usize] = b'.';
                p.b[(m.from + 1) as usize] = r;
            }
            K_OOO => {
                p.b[m.to as usize] = piece;
                let r = p.b[(m.from - 4) as usize];
                p.b[(m.from - 4) as usize] = b'.';
                p.b[(m.from - 1) as usize] = r;
            }
            _ => {
                p.b[m.to as usize] = if m.promo != 0 {
                    if w {
                        m.promo.to_ascii_uppercase()
                    } else {
                        m.promo
                    }
                } else {
                    piece
                };
            }
        }
        // castling rights: a move from or to a home square of king or rook ends the right
        for q in [m.from, m.to] {
            match q {
                4 => {
                    p.cr[0] = false;
                    p.cr[1] = false;
                }
                60 => {
                    p.cr[2] = false;
                    p.cr[3] = false;
                }
                7 => p.cr[0] = false,
                0 => p.cr[1] = false,
                63 => p.cr[2] = false,
                56 => p.cr[3] = false,
                _ => {}
            }
        }
        // en passant: recorded iff the move was a double push that lands beside an enemy pawn
        p.ep = None;
        if m.kind == K_DOUBLE {
            let (r, f) = rf(m.to);
            let enemy_pawn = if w { b'p' } else { b'P' };
            for df in [-1, 1] {
                if let Some(q) = sq(r, f + df) {
                    if p.b[q as usize] == enemy_pawn {
                        p.ep = Some(f as u8);
                    }
                }
            }
        }
        p.white = !w;
        p
    }

    pub fn legal(&self) -> Vec<RMove> {
        self.pseudo().into_iter().filter(|&m| !self.make(m).in_check(self.white)).collect()
    }

    pub fn is_capture(&self, m: RMove) -> bool {
        m.kind == K_EP || self.b[m.to as usize] != b'.'
    }

    pub fn men(&self) -> u32 {
        self.b.iter().filter(|&&c| c != b'.').count() as u32
    }

    /// Sanity as the properties define it: one king each, no pawns on the first or eighth rank, side
    /// not to move not in check, kings not adjacent, castling rights and en-passant file consistent
    /// with the board.
    pub fn sane(&self) -> bool {
        let wk = self.b.iter().filter(|&&c| c == b'K').count();
        let bk = self.b.iter().filter(|&&c| c == b'k').count();
        if wk != 1 || bk != 1 {
            return false;
        }
        for f in 0..8 {
            for r in [0usize, 7] {
                if self.b[r * 8 + f].to_ascii_lowercase() == b'p' {
                    return false;
                }
            }
        }
        if self.in_check(!self.white) {
            return false;
        }
        let (a, b) = (rf(self.king_sq(true).unwrap()), rf(self.king_sq(false).unwrap()));
        if (a.0 - b.0).abs() <= 1 && (a.1 - b.1).abs() <= 1 {
            return false;
        }
        if self.cr[0] && !(self.b[4] == b'K' && self.b[7] == b'R') {
            return false;
        }
        if self.cr[1] && !(self.b[4] == b'K' && self.b[0] == b'R') {
            return false;
        }
        if self.cr[2] && !(self.b[60] == b'k' && self.b[63] == b'r') {
            return false;
        }
        if self.cr[3] && !(self.b[60] == b'k' && self.b[56] == b'r') {
            return false;
        }
        if let Some(f) = self.ep {
            // pawn of the side not to move on its fourth rank, both squares behind it empty
            let (pr, p, behind1, behind2) = if self.white { (4usize, b'p', 5usize, 6usize) } else { (3, b'P', 2, 1) };
            let f = f as usize;
            if f > 7 || self.b[pr * 8 + f] != p || self.b[behind1 * 8 + f] != b'.' || self.b[behind2 * 8 + f] != b'.' {
                return false;
            }
        }
        true
    }

    /// True when the en-passant file is set and an enemy pawn stands beside the pushed pawn
    /// (the "only when capturable" FEN style; the engine's own `push` records exactly these).
    pub fn ep_capturable(&self) -> bool {
        let Some(f) = self.ep else { return false };
        let (pr, me) = if self.white { (4i32, b'P') } else { (3, b'p') };
        for df in [-1, 1] {
            if let Some(q) = sq(pr, f as i32 + df) {
                if self.b[q as usize] == me {
                    return true;
                }
            }
        }
        false
    }

    pub fn mirror(&self) -> Pos {
        // colour mirror: flip ranks, swap case, swap side and rights
        let mut b = [b'.'; 64];
        for s in 0..64usize {
            let c = self.b[s];
            let t = (7 - s / 8) * 8 + s % 8;
            b[t] = if c == b'.' {
                c
            } else if c.is_ascii_uppercase() {
                c.to_ascii_lowercase()
            } else {
                c.to_ascii_uppercase()
            };
        }
        Pos { b, white: !self.white, cr: [self.cr[2], self.cr[3], self.cr[0], self.cr[1]], ep: self.ep }
    }

    /// The board as the engine's `show` command draws it (ranks 8..1, `|` separated)
    pub fn diagram(&self) -> Vec<String> {
        let mut out = Vec::new();
        for r in (0..8).rev() {
            let mut line = format!("{} ", r + 1);
            for f in 0..8 {
                let c = self.b[r * 8 + f];
                let g = match c {
                    b'K' => '♔',
                    b'Q' => '♕',
                    b'R' => '♖',
                    b'B' => '♗',
                    b'N' => '♘',
                    b'P' => '♙',
                    b'k' => '♚',
                    b'q' => '♛',
                    b'r' => '♜',
                    b'b' => '♝',
                    b'n' => '♞',
                    b'p' => '♟',
                    _ => ' ',
                };
                line.push('|');
                line.push(g);
            }
            line.push('|');
            out.push(line);
        }
        out
    }
}

pub fn mirror_move(m: RMove) -> RMove {
    let fl = |s: u8| (7 - s / 8) * 8 + s % 8;
    RMove { from: fl(m.from), to: fl(m.to), promo: m.promo, kind: m.kind }
}

pub fn perft(p: &Pos, d: u32) -> u64 {
    if d == 0 {
        return 1;
    }
    let l = p.legal();
    if d == 1 {
        return l.len() as u64;
    }
    l.iter().map(|&m| perft(&p.make(m), d - 1)).sum()
}

// ---------------------------------------------------------------------------------------------
// Zobrist combiner reading the published key file at the documented byte offsets

pub struct Zob {
    bytes: Vec<u8>,
}

impl Zob {
    pub fn load(path: &str) -> Zob {
        let bytes = std::fs::read(path).unwrap_or_else(|e| panic!("cannot read key file {}: {}", path, e));
        assert!(bytes.len() >= 8208, "key file too short");
        Zob { bytes }
    }
    pub fn repo() -> Zob {
        Zob::load("/repo/zobrist_bytes.bin")
    }
    fn at(&self, off: usize) -> u64 {
        u64::from_le_bytes(self.bytes[off..off + 8].try_into().unwrap())
    }
    pub fn kind_index(c: u8) -> usize {
        (match c.to_ascii_lowercase() {
            b'q' => 0,
            b'r' => 1,
            b'b' => 2,
            b'n' => 3,
            b'p' => 4,
            _ => 5,
        }) + if is_white(c) { 0 } else { 6 }
    }
    pub fn state_bits(p: &Pos) -> usize {
        let mut bits = p.ep.map(|f| f as usize).unwrap_or(8);
        for i in 0..4 {
            if p.cr[i] {
                bits |= 1 << (4 + i);
            }
        }
        bits
    }
    pub fn hash(&self, p: &Pos) -> u64 {
        let mut h = 0u64;
        for s in 0..64 {
            let c = p.b[s];
            if c == b'.' {
                h ^= self.at(1);
            } else {
                h ^= self.at(259 + 8 * (s * 12 + Zob::kind_index(c)));
            }
        }
        if !p.white {
            h ^= self.at(0);
        }
        h ^= self.at(2 + 8 * Zob::state_bits(p));
        h
    }
}

// ---------------------------------------------------------------------------------------------
// Mate solver

pub fn is_mate(p: &Pos) -> bool {
    p.in_check(p.white) && p.legal().is_empty()
}
pub fn is_stalemate(p: &Pos) -> bool {
    !p.in_check(p.white) && p.legal().is_empty()
}
pub fn mate_in_1_moves(p: &Pos) -> Vec<RMove> {
    p.legal().into_iter().filter(|&m| is_mate(&p.make(m))).collect()
}
/// Moves after which the opponent has at least one reply and every reply allows mate in one
pub fn mate_in_2_moves(p: &Pos) -> Vec<RMove> {
    p.legal()
        .into_iter()
        .filter(|&m| {
            let q = p.make(m);
            let rs = q.legal();
            !rs.is_empty() && rs.iter().all(|&r| !mate_in_1_moves(&q.make(r)).is_empty())
        })
        .collect()
}
/// The side to move can force mate in at most `n` of its own moves. `budget` counts made moves;
/// when it runs out the answer is `false` and the caller must treat the result as inconclusive.
pub fn forced_mate(p: &Pos, n: u32, budget: &mut i64) -> bool {
    if n == 0 || *budget < 0 {
        return false;
    }
    for m in p.legal() {
        *budget -= 1;
        let q = p.make(m);
        let rs = q.legal();
        if rs.is_empty() {
            if q.in_check(q.white) {
                return true;
            } else {
                continue;
            }
        }
        if n == 1 {
            continue;
        }
        if rs.iter().all(|&r| forced_mate(&q.make(r), n - 1, budget)) {
            return true;
        }
    }
    false
}
/// After our move (opponent to move in `q`): the opponent is mated, or every reply allows a forced
/// mate in at most `n` further moves.
pub fn keeps_mate(q: &Pos, n: u32, budget: &mut i64) -> bool {
    let rs = q.legal();
    if rs.is_empty() {
        return q.in_check(q.white);
    }
    rs.iter().all(|&r| forced_mate(&q.make(r), n, budget))
}

// ---------------------------------------------------------------------------------------------
// Self-test of the model against published numbers (CPW perft results)

pub const PERFT_TABLE: &[(&str, u32, u64)] = &[
    (START_FEN, 4, 197_281),
    (START_FEN, 5, 4_865_609),
    ("r3k2r/p1ppqpb1/bn2pnp1/3PN3/1p2P3/2N2Q1p/PPPBBPPP/R3K2R w KQkq - 0 1", 3, 97_862),
    ("r3k2r/p1ppqpb1/bn2pnp1/3PN3/1p2P3/2N2Q1p/PPPBBPPP/R3K2R w KQkq - 0 1", 4, 4_085_603),
    ("8/2p5/3p4/KP5r/1R3p1k/8/4P1P1/8 w - - 0 1", 5, 674_624),
    ("r3k2r/Pppp1ppp/1b3nbN/nP6/BBP1P3/q4N2/Pp1P2PP/R2Q1RK1 w kq - 0 1", 4, 422_333),
    ("rnbq1k1r/pp1Pbppp/2p5/8/2B5/8/PPP1NnPP/RNBQK2R w KQ - 1 8", 4, 2_103_487),
    ("r4rk1/1pp1qppp/p1np1n2/2b1p1B1/2B1P1b1/P1NP1N2/1PP1QPPP/R4RK1 w - - 0 10", 3, 89_890),
];

pub fn selftest() -> Result<(), String> {
    for &(fen, d, n) in PERFT_TABLE {
        let p = Pos::from_fen(fen)?;
        if !p.sane() {
            return Err(format!("perft root not sane: {}", fen));
        }
        let got = perft(&p, d);
        if got != n {
            return Err(format!("reference perft({}) of {} = {}, published {}", d, fen, got, n));
        }
        if Pos::from_fen(&p.fen6())? != p {
            return Err(format!("reference FEN round trip failed for {}", fen));
        }
    }
    Ok(())
}
