//! Thin adaptor over the engine's public API (the `observe_at` points of the properties).
#![allow(dead_code)]

use arrayvec::ArrayVec;
pub use rb::chess::move_struct::Move;
pub use rb::chess::{Game, Player};

pub type MoveBuf = ArrayVec<Move, 256>;

pub fn moves(g: &mut Game, verify: bool) -> MoveBuf {
    let mut m = ArrayVec::new();
    g.get_moves(&mut m, verify);
    m
}

pub fn move_texts(g: &mut Game, verify: bool) -> Vec<String> {
    moves(g, verify).iter().map(|x| x.uci_notation()).collect()
}

pub fn sorted_texts(g: &mut Game, verify: bool) -> Vec<String> {
    let mut v = move_texts(g, verify);
    v.sort();
    v
}

/// The engine's legal move whose text is `uci`
pub fn find_legal(g: &mut Game, uci: &str) -> Option<Move> {
    moves(g, true).iter().copied().find(|m| m.uci_notation() == uci)
}

pub fn find_any(g: &mut Game, uci: &str) -> Option<Move> {
    moves(g, false).iter().copied().find(|m| m.uci_notation() == uci)
}

/// Fields 1-4 of the exported FEN
pub fn fen4(g: &Game) -> String {
    g.fen().split(' ').take(4).collect::<Vec<_>>().join(" ")
}

pub fn king_squares(g: &Game) -> (i8, i8, i8, i8) {
    let (w, b) = (g.get_king_position(Player::White), g.get_king_position(Player::Black));
    (w.row(), w.col(), b.row(), b.col())
}

/// Every observable the properties name, in one comparable value
#[derive(Clone, PartialEq, Eq, Debug)]
pub struct Snapshot {
    pub fen: String,
    pub hash: u64,
    pub score: i16,
    pub kings: (i8, i8, i8, i8),
    pub len: usize,
    pub white_to_move: bool,
    pub move_stack_len: usize,
    pub checked: Vec<String>,
    pub unchecked: Vec<String>,
    pub display: String,
}

pub fn snapshot(g: &mut Game) -> Snapshot {
    Snapshot {
        fen: g.fen(),
        hash: g.hash(),
        score: g.score(),
        kings: king_squares(g),
        len: g.len(),
        white_to_move: g.player() == Player::White,
        move_stack_len: g.move_stack().len(),
        checked: sorted_texts(g, true),
        unchecked: sorted_texts(g, false),
        display: format!("{}", g),
    }
}

impl Snapshot {
    pub fn diff(&self, other: &Snapshot) -> String {
        let mut v = Vec::new();
        if self.fen != other.fen {
            v.push(format!("fen {:?} -> {:?}", self.fen, other.fen));
        }
        if self.hash != other.hash {
            v.push(format!("hash {:X} -> {:X}", self.hash, other.hash));
        }
        if self.score != other.score {
            v.push(format!("score {} -> {}", self.score, other.score));
        }
        if self.kings != other.kings {
            v.push(format!("kings {:?} -> {:?}", self.kings, other.kings));
        }
        if self.len != other.len {
            v.push(format!("len {} -> {}", self.len, other.len));
        }
        if self.white_to_move != other.white_to_move {
            v.push("side to move changed".to_string());
        }
        if self.move_stack_len != other.move_stack_len {
            v.push(format!("move record {} -> {}", self.move_stack_len, other.move_stack_len));
        }
        if self.checked != other.checked {
            v.push(format!("checked list {:?} -> {:?}", self.checked, other.checked));
        }
        if self.unchecked != other.unchecked {
            v.push(format!("unchecked list {:?} -> {:?}", self.unchecked, other.unchecked));
        }
        if self.display != other.display && v.is_empty() {
            v.push("display text changed".to_string());
        }
        v.join("; ")
    }
}

/// Run `f` with panics caught; the panic message (with location) is returned as Err.
pub fn guarded<T>(f: impl FnOnce() -> T) -> Result<T, String> {
    match std::panic::catch_unwind(std::panic::AssertUnwindSafe(f)) {
        Ok(v) => Ok(v),
        Err(e) => {
            let msg = if let Some(s) = e.downcast_ref::<&str>() {
                s.to_string()
            } else if let Some(s) = e.downcast_ref::<String>() {
                s.clone()
            } else {
                "panic".to_string()
            };
            let loc = LAST_PANIC_LOCATION.with(|l| l.borrow().clone());
            Err(format!("panic: {} at {}", msg, loc))
        }
    }
}

thread_local! {
    pub static LAST_PANIC_LOCATION: std::cell::RefCell<String> = std::cell::RefCell::new(String::new());
}

/// Quiet panic hook that records the location for `guarded`
pub fn install_panic_hook() {
    std::panic::set_hook(Box::new(|info| {
        let loc = info.location().map(|l| format!("{}:{}", l.file(), l.line())).unwrap_or_default();
        LAST_PANIC_LOCATION.with(|l| *l.borrow_mut() = loc);
    }));
}
